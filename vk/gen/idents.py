"""Adversarial identifier generator for `vk.gen.problem` (profile key `names`) — owner: C08/C09 (factory-wf).

`make_names()` returns a *stateful* callable `(rng, kind, index) -> identifier` (create one per generated problem).
Identifiers are valid, distinct strings (uniqueness is enforced by `G.name`, which retries) drawn so that
  * they contain underscores, digits and mixed case;
  * many are prefixes / `_`-extensions of one another (`a`, `a_b`, `a_b_c`, `a_0`, `a_0_1`);
  * `_`-joins of several of them coincide (`mv` + `a_b` + `c`  ==  `mv` + `a` + `b_c`  ==  `mv_a` + `b_c` ...);
  * some equal the *mangled form* a compiler would derive from another identifier (`not_<f>`, `<a>_0`,
    `is_value_defined_<f>`, `dcrm_fake_goal`, `hold-0`, ...).
`rename_locals(recipe, rng)` additionally renames action parameters and fluent signature parameters of a finished
recipe (the generator itself always calls them y0/y1/x0/x1) to identifiers with separators, digits and type-like names.
"""

STEMS = ["a", "b", "c", "mv", "x", "A", "B", "aB", "a1", "b2", "not", "go", "0", "1"]
RESERVED = [
    "dcrm_fake_goal",
    "dcrm_fake_action",
    "dcrm_fake_action_0",
    "hold-0",
    "hold-1",
    "seen-phi-0",
    "seen-psi-0",
    "seen-psi-1",
    "true",
    "false",
]


def make_names(reserved=0.04):
    made = []

    def names(rng, kind, index):
        x = rng.random()
        n = None
        if made and x < 0.62:
            base = rng.choice(made)
            op = rng.choice(["num", "num", "not", "concat", "concat", "concat", "case", "prefix", "split", "ivd", "ext"])
            if op == "num":
                n = f"{base}_{rng.choice([0, 0, 1, 2])}"
            elif op == "not":
                n = "not_" + base
            elif op == "concat":
                n = base + "_" + rng.choice(made + STEMS)
            elif op == "case":
                n = base.swapcase() if base.swapcase() != base else base + "X"
            elif op == "prefix":
                n = base[: rng.randint(1, max(1, len(base) - 1))].rstrip("_-") or base + "_"
            elif op == "split":
                parts = [p for p in base.split("_") if p]
                n = rng.choice(parts) if len(parts) > 1 else base + "_" + rng.choice(STEMS)
            elif op == "ivd":
                n = "is_value_defined_" + base
            else:
                n = base + rng.choice(["0", "1", "b", "_", "B"])
        elif x < 0.62 + reserved:
            n = rng.choice(RESERVED)
        else:
            n = rng.choice(STEMS)
            if rng.random() < 0.45:
                n = n + "_" + rng.choice(STEMS)
                if rng.random() < 0.3:
                    n = n + "_" + rng.choice(STEMS)
        made.append(n)
        return n

    return names


LOCAL_POOL = ["p", "p_0", "p_1", "x", "x_1", "P", "y_0", "t", "t_0", "q0", "a_b", "l", "l_0", "n", "n_1", "to", "from_"]


def rename_locals(rec, rng, prob=0.7):
    """Rename action parameters / fluent signature parameters of a recipe in place (deterministic in rng)."""
    glob = {n for n, _ in rec.get("types", [])} | {n for n, _ in rec.get("objects", [])}
    glob |= {f["name"] for f in rec.get("fluents", [])} | {a["name"] for a in rec.get("actions", [])}
    type_names = [n for n, _ in rec.get("types", [])]

    def fresh(taken, ptype):
        cands = list(LOCAL_POOL)
        if isinstance(ptype, list) and ptype[0] == "user":
            # the lower-cased type name is what UsertypeFluentsRemover picks for its extra parameter
            cands += [ptype[1].lower(), ptype[1].lower() + "_0"]
        rng.shuffle(cands)
        for c in cands:
            if c not in taken and c not in glob:
                return c
        return None

    for f in rec.get("fluents", []):
        if rng.random() < prob:
            taken = set()
            for p in f["sig"]:
                n = fresh(taken, p[1])
                if n is not None:
                    p[0] = n
                taken.add(p[0])
    for a in rec.get("actions", []):
        if "duration" in a or rng.random() >= prob:
            continue
        ren, taken = {}, set()
        for p in a["params"]:
            n = fresh(taken, p[1])
            if n is not None:
                ren[p[0]] = n
                p[0] = n
            taken.add(p[0])
        if ren:
            _rename_params(a["pre"], ren)
            for e in a["effects"]:
                for k in ("fluent", "value", "cond"):
                    if e.get(k) is not None:
                        _rename_params(e[k], ren)
            m = rec.get("metric")
            if m and m.get("kind") == "costs" and a["name"] in m["costs"]:
                _rename_params(m["costs"][a["name"]], ren)
    return rec


def _rename_params(e, ren):
    if isinstance(e, list):
        if len(e) == 2 and e[0] == "p" and isinstance(e[1], str):
            e[1] = ren.get(e[1], e[1])
            return
        for x in e:
            _rename_params(x, ren)


def _rename_objects(x, ren):
    if isinstance(x, list):
        if len(x) == 2 and x[0] == "o" and isinstance(x[1], str):
            x[1] = ren.get(x[1], x[1])
            return
        for y in x:
            _rename_objects(y, ren)
    elif isinstance(x, dict):
        for y in x.values():
            _rename_objects(y, ren)


def _compositions(n, m):
    """All ways of cutting n tokens into m non-empty consecutive groups, as tuples of cut positions (c_1 < ... < c_{m-1})."""
    import itertools

    return list(itertools.combinations(range(1, n), m - 1))


def clone_object(rec, template, name):
    """Add object `name` as a twin of `template` (same type; every explicit initial-value row about a ground fluent that
    mentions `template` is repeated for each way of replacing occurrences of `template` by `name`, so the twin is exactly
    as (un)defined as its template)."""
    import copy
    import itertools

    ot = next(t for o, t in rec["objects"] if o == template)
    rec["objects"].append([name, copy.deepcopy(ot)])
    rows = []
    for fe, val in rec.get("init", []):
        pos = [k for k in range(2, len(fe)) if fe[k] == ["o", template]]
        for n in range(1, len(pos) + 1):
            for sub in itertools.combinations(pos, n):
                fe2 = copy.deepcopy(fe)
                for k in sub:
                    fe2[k] = ["o", name]
                rows.append([fe2, copy.deepcopy(val)])
    rec.setdefault("init", []).extend(rows)


JOIN_WAYS = [2, 2, 3, 3, 3, 4]
MAX_TRAP_OBJECTS = 9  # cloned objects are only added while the problem stays below this many objects


def inject_join_trap(rec, rng, ways=None):
    """Rename objects (cloning some when a parameter domain is too small) and possibly actions of a finished recipe so that
    k = 2..4 *different* ground instances share one `_`-joined name.  Three families, for a token sequence s_1 .. s_n of
    fresh stems (all different, or all the same stem when the parameter domains share enough objects):
      split  : one action with a run of m = 2 or 3 adjacent user-typed parameters; k different ways of cutting the token
               sequence into m groups give k argument tuples with the same join — move(X, Y_Z_W) / move(X_Y, Z_W) /
               move(X_Y_Z, W);  mv(X, Y, Z_W) / mv(X, Y_Z, W) / mv(X_Y, Z, W);  move(X, X_X) / move(X_X, X);
      across : k one-parameter actions N, N_X, N_X_Y with arguments X_Y_Z, Y_Z, Z.
    Returns the number of coinciding instances built (0 when no trap could be injected)."""
    fathers = dict((n, f) for n, f in rec["types"])

    def dom(t):
        out = []
        for o, ot in rec["objects"]:
            x = ot[1]
            while x is not None:
                if x == t:
                    out.append(o)
                    break
                x = fathers.get(x)
        return out

    used = {n for n, _ in rec["types"]} | {n for n, _ in rec["objects"]} | {f["name"] for f in rec["fluents"]} | {a["name"] for a in rec["actions"]}

    def fresh_stems(k):
        pool = ["k", "m", "r", "s", "u", "w", "K", "M", "R7", "s2", "uU", "w0"]
        rng.shuffle(pool)
        out = []
        for p in pool:
            if all(not (n == p or n.startswith(p + "_") or n.endswith("_" + p)) for n in used):
                out.append(p)
            if len(out) == k:
                return out
        return None

    def is_user(p):
        return isinstance(p[1], list) and p[1][0] == "user"

    k = ways or rng.choice(JOIN_WAYS)
    acts = list(rec["actions"])
    rng.shuffle(acts)
    # ---- family "split" ----------------------------------------------------------------------------------------
    plan = None  # (needs: list of (type name, object name wanted)), action renames
    for a in acts:
        ps = a["params"]
        if not (2 <= len(ps) <= 3):
            continue
        runs = []
        for m in (3, 2):
            for i in range(0, len(ps) - m + 1):
                if all(is_user(p) for p in ps[i : i + m]):
                    runs.append((i, m))
        if not runs:
            continue
        i0, m = rng.choice(runs)
        n = k + 1 if m == 2 else (4 if k <= 3 else 5)
        comps = _compositions(n, m)
        rng.shuffle(comps)
        comps = comps[:k]
        doms = [dom(ps[i0 + j][1][1]) for j in range(m)]
        common = [o for o in doms[0] if all(o in d for d in doms[1:])]
        same_stem = len(common) >= 2 and rng.random() < 0.35
        st = fresh_stems(1 if same_stem else n)
        if st is None:
            return 0
        toks = st * n if same_stem else st
        wanted = []  # per position: list of names (in order of first use)
        for j in range(m):
            names = []
            for c in comps:
                cuts = (0,) + c + (n,)
                nm = "_".join(toks[cuts[j] : cuts[j + 1]])
                if nm not in names:
                    names.append(nm)
            wanted.append(names)
        plan = ("split", a, i0, m, wanted, common if same_stem else None)
        break
    ren, clones = {}, []
    if plan is not None:
        _, a, i0, m, wanted, shared = plan
        taken = set()
        budget = max(0, MAX_TRAP_OBJECTS - len(rec["objects"]))
        for j in range(m):
            # same-stem families use one object at several positions: only objects common to all the domains are used
            d = shared if shared is not None else dom(a["params"][i0 + j][1][1])
            for nm in wanted[j]:
                if nm in taken:
                    continue
                free = [o for o in d if o not in ren]
                if free:
                    o = rng.choice(free)
                    ren[o] = nm
                    taken.add(nm)
                elif d and budget > 0:
                    clones.append((rng.choice(d), nm))
                    taken.add(nm)
                    budget -= 1
                else:
                    return 0
    else:
        # ---- family "across" -----------------------------------------------------------------------------------
        one = [a for a in acts if len(a["params"]) == 1 and is_user(a["params"][0])]
        k = min(k, len(one))
        if k < 2:
            return 0
        chosen = rng.sample(one, k)
        st = fresh_stems(k)
        if st is None:
            return 0
        renames = []
        for j, a in enumerate(chosen):
            d = [o for o in dom(a["params"][0][1][1]) if o not in ren]
            if not d:
                return 0
            ren[rng.choice(d)] = "_".join(st[j:])
            if j > 0:
                renames.append((a, "_".join([chosen[0]["name"]] + st[:j])))
        if any(nn in used for _, nn in renames):
            return 0
        m_ = rec.get("metric")
        for a, nn in renames:
            if m_ and m_.get("kind") == "costs" and a["name"] in m_["costs"]:
                m_["costs"][nn] = m_["costs"].pop(a["name"])
            a["name"] = nn
    new_names = list(ren.values()) + [nm for _, nm in clones]
    if any(v in used for v in new_names) or len(set(new_names)) != len(new_names):
        return 0
    for tpl, nm in clones:
        clone_object(rec, tpl, nm)
    for o in rec["objects"]:
        o[0] = ren.get(o[0], o[0])
    for key in ("fluents", "actions", "init", "goals", "invariants", "traj", "metric", "timed_effects", "timed_goals"):
        if rec.get(key) is not None:
            _rename_objects(rec[key], ren)
    return k


def concat_traps(names):
    """Own detection of identifier traps in a set of names: -> set of trap classes present.
    'suffix-num' : n and n_<digit> both present;  'not' : n and not_n;  'ivd' : n and is_value_defined_n;
    'join' : some name is the `_`-join of two other names;  'reserved' : a compiler-reserved identifier is present."""
    s = set(names)
    out = set()
    for n in s:
        for d in "012":
            if f"{n}_{d}" in s:
                out.add("suffix-num")
        if "not_" + n in s:
            out.add("not")
        if "is_value_defined_" + n in s:
            out.add("ivd")
        if n in RESERVED:
            out.add("reserved")
        if "_" in n:
            for i, ch in enumerate(n):
                if ch == "_" and n[:i] in s and n[i + 1 :] in s:
                    out.add("join")
    return out


def inject_derived_name_trap(rec, rng, forms=("is_value_defined_{}",)):
    """Give an object (or, when no metric refers to actions, an action) the name a compiler would derive for a NEW fluent from
    an existing numeric fluent (`is_value_defined_<f>` of UndefinedInitialNumericRemover): fresh names must avoid every
    kind of name in the problem, not only the fluents. Returns the trapped names."""
    used = {n for n, _ in rec["types"]} | {n for n, _ in rec["objects"]} | {f["name"] for f in rec["fluents"]} | {a["name"] for a in rec["actions"]}
    nums = [f for f in rec["fluents"] if isinstance(f["type"], list) and f["type"][0] in ("int", "real")]
    rng.shuffle(nums)
    out = []
    for f in nums[: rng.choice([1, 1, 2])]:
        n = rng.choice(forms).format(f["name"])
        if n in used:
            continue
        if rec["actions"] and not rec.get("metric") and rng.random() < 0.3:
            rng.choice(rec["actions"])["name"] = n
        elif rec["types"]:
            rec["objects"].append([n, ["user", rng.choice(rec["types"])[0]]])
        else:
            continue
        used.add(n)
        out.append(n)
    return out


def _rename_fluent_refs(x, mapping):
    if isinstance(x, list):
        if len(x) >= 2 and x[0] == "f" and isinstance(x[1], str) and x[1] in mapping:
            x[1] = mapping[x[1]]
        for y in x:
            _rename_fluent_refs(y, mapping)
    elif isinstance(x, dict):
        for k, y in x.items():
            if k == "costs" and isinstance(y, dict):
                continue
            _rename_fluent_refs(y, mapping)


def inject_negation_name_trap(rec, rng):
    """Rename three Boolean fluents to  A, not_A, A_0  and add an action whose precondition negates A and A_0, so that a
    compiler that derives `not_<f>` names for new fluents has to keep the two new names apart (`not_A` is taken, the
    next candidate `not_A_0` is also the first candidate for A_0). Returns True when the trap was planted."""
    bools = [f for f in rec["fluents"] if f["type"] == "bool"]
    if len(bools) < 3:
        return False
    a, b, c = rng.sample(bools, 3)
    used = {n for n, _ in rec["types"]} | {n for n, _ in rec["objects"]} | {f["name"] for f in rec["fluents"]} | {x["name"] for x in rec["actions"]}
    base = a["name"]
    new_b, new_c = "not_" + base, base + "_0"
    if (new_b in used and new_b != b["name"]) or (new_c in used and new_c != c["name"]) or "not_" + new_c in used:
        return False
    mapping = {b["name"]: new_b, c["name"]: new_c}
    _rename_fluent_refs(rec, mapping)
    b["name"], c["name"] = new_b, new_c
    params, pre = [], []
    for f in (a, c):
        ps = [[f"z{len(params) + j}", pt] for j, (_, pt) in enumerate(f["sig"])]
        params += ps
        pre.append(["not", ["f", f["name"]] + [["p", pn] for pn, _ in ps]])
    fe = ["f", a["name"]] + [["p", pn] for pn, _ in params[: len(a["sig"])]]
    name = "trap_neg"
    while name in used:
        name += "_"
    rec["actions"].append({"name": name, "params": params, "pre": pre, "effects": [{"kind": "assign", "fluent": fe, "value": ["b", True], "cond": None, "forall": []}]})
    return True

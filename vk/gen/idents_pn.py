"""Adversarial identifiers for the writer-renaming check (C38; owner: proto-names).

`namer(rng)` returns a callable usable as vk.gen.problem profile["names"]: (rng, kind, index) -> identifier, drawing from
* plain names,
* case variants of one another (Ab / aB / AB / ab),
* PDDL and ANML keywords (and case variants of them),
* names with symbols / spaces / non-ASCII letters / leading digits / leading '?', '_' or '-',
* names equal to the mangled form of another name of the same problem (x_0, and_, f_1, a_b for "a b", ...).
`rename_locals(rec, rng)` rewrites action parameter names and quantified-variable names of a recipe the same way.
"""
import copy

PLAIN = ["loc", "robot", "x1", "cargo", "at_", "is_on", "p", "q", "r2d2", "belt-a", "w_1"]
CASE_BASES = ["ab", "move", "at", "on", "x_0", "and"]
PDDL_KW = [
    "and", "or", "not", "imply", "exists", "forall", "when", "either", "assign", "increase", "decrease", "scale-up",
    "scale-down", "define", "domain", "problem", "number", "object", "at", "over", "start", "end", "all", "duration",
    "total-time", "total-cost", "always", "sometime", "within", "at-most-once", "preference", "is-violated", "minimize",
    "maximize", "metric", "init", "goal", "action", "parameters", "precondition", "effect", "types", "constants",
    "predicates", "functions", "observe", "oneof", "unknown", "process", "event", "undefined",
]  # fmt: skip
ANML_KW = [
    "action", "and", "constant", "duration", "else", "fact", "fluent", "function", "goal", "in", "instance", "motivated",
    "predicate", "symbol", "variable", "when", "with", "decomposition", "use", "contains", "exists", "forall", "implies",
    "iff", "not", "or", "xor", "UNDEFINED", "all", "end", "false", "infinity", "object", "start", "true", "boolean",
    "float", "rational", "integer", "string", "type", "set", "subset", "union", "elt",
]  # fmt: skip
SYMBOLS = [
    "a b", "a.b", "a-b", "a+b", "a?b", "?x", "a(b)", "é", "éa", "a;b", "a\"b", "a'b", "a:b", "#t", "a,b", "a/b", "a=b", "a<b", "x y z", "a\tb", "naïve",
    "α", "a[0]", "{a}", "a--b", "a__b", "a_", "a-", "-", "_",
]  # fmt: skip
DIGITS = ["1", "1a", "2b", "007", "_x", "-a", "0-0", "3.14", "9_", "1 2"]


def _rand_case(rng, s):
    return "".join(c.upper() if rng.random() < 0.5 else c.lower() for c in s)


def _mangled_forms(rng, n, kind):
    """Names a writer could produce when mangling `n` (guessed by shape, on purpose not by calling the writers)."""
    import re

    low = n.lower()
    letter = {"T": "x", "o": "o", "f": "f", "a": "a", "param": "p", "var": "x"}.get(kind, "x")
    cands = [
        n + "_0",
        n + "_1",
        low + "_0",
        n + "_",
        low + "_",
        re.sub(r"[^0-9a-zA-Z_-]", "_", low),
        re.sub(r"[^0-9a-zA-Z_]", "_", n),
        f"{letter}_{low}",
        f"{letter}_{n}",
        "x_" + low,
        re.sub(r"[^0-9a-zA-Z_]", "_", n) + "_0",
        f"{letter}_{re.sub(r'[^0-9a-zA-Z_-]', '_', low)}",
        f"{letter}_{re.sub(r'[^0-9a-zA-Z_-]', '_', low)}_0",
    ]
    return rng.choice(cands)


class Namer:
    def __init__(self, rng, adversarial=0.75):
        self.adv = adversarial
        self.seen = []  # (name, kind)
        self.classes = set()

    def __call__(self, rng, kind, i):
        x = rng.random()
        if x > self.adv:
            n = f"{kind}{i}"
            cls = "plain"
        else:
            y = rng.random()
            if y < 0.12:
                n, cls = rng.choice(PLAIN), "plain"
            elif y < 0.32:
                n, cls = _rand_case(rng, rng.choice(CASE_BASES)), "case-variant"
            elif y < 0.47:
                n, cls = rng.choice(PDDL_KW), "pddl-keyword"
                if rng.random() < 0.3:
                    n, cls = _rand_case(rng, n), "pddl-keyword-case-variant"
            elif y < 0.6:
                n, cls = rng.choice(ANML_KW), "anml-keyword"
                if rng.random() < 0.2:
                    n, cls = _rand_case(rng, n), "anml-keyword-case-variant"
            elif y < 0.75:
                n, cls = rng.choice(SYMBOLS), "symbols"
            elif y < 0.83:
                n, cls = rng.choice(DIGITS), "leading-digit-or-punct"
            elif self.seen:
                same = [(b, k) for b, k in self.seen if k == kind] or self.seen
                base, bk = rng.choice(same if rng.random() < 0.7 else self.seen)
                if rng.random() < 0.35 and base.lower() != base.upper():
                    n, cls = _rand_case(rng, base), "case-variant"
                else:
                    n, cls = _mangled_forms(rng, base, bk), "mangled-form-of-another"
            else:
                n, cls = _rand_case(rng, rng.choice(CASE_BASES)), "case-variant"
        self.seen.append((n, kind))
        self.classes.add(cls)
        return n


def namer(rng, adversarial=0.75):
    return Namer(rng, adversarial)


# ---- local names (parameters, quantified variables) -----------------------------------------------------------
def _rename_in(e, pmap, vmap):
    if isinstance(e, list):
        if len(e) == 2 and e[0] == "p" and isinstance(e[1], str):
            return ["p", pmap.get(e[1], e[1])]
        if len(e) == 3 and e[0] == "v" and isinstance(e[1], str):
            return ["v", vmap.get(e[1], e[1]), e[2]]
        if e and e[0] in ("exists", "forall") and len(e) == 3:
            return [e[0], [[vmap.get(n, n), t] for n, t in e[1]], _rename_in(e[2], pmap, vmap)]
        return [_rename_in(x, pmap, vmap) for x in e]
    if isinstance(e, dict):
        out = {}
        for k, v in e.items():
            if k == "forall" and isinstance(v, list) and all(isinstance(x, (list, tuple)) and len(x) == 2 and isinstance(x[0], str) for x in v):
                # (a `costs` table keyed by an action that is *named* "forall" is not a binder list)
                out[k] = [[vmap.get(n, n), t] for n, t in v]
            else:
                out[k] = _rename_in(v, pmap, vmap)
        return out
    return e


def _collect_vars(e, acc):
    if isinstance(e, list):
        if len(e) == 3 and e[0] == "v" and isinstance(e[1], str):
            acc.add(e[1])
        for x in e:
            _collect_vars(x, acc)
    elif isinstance(e, dict):
        for k, v in e.items():
            if k == "forall":
                for nv in v:
                    if isinstance(nv, (list, tuple)) and len(nv) == 2 and isinstance(nv[0], str):
                        acc.add(nv[0])
            _collect_vars(v, acc)


def rename_locals(rec, rng, nm):
    """Adversarial names for action parameters and variables (consistent inside the recipe)."""
    rec = copy.deepcopy(rec)
    vnames = set()
    _collect_vars(rec, vnames)
    vmap = {}
    used = set()
    for v in sorted(vnames):
        for _ in range(10):
            n = nm(rng, "var", len(vmap))
            if n not in used:
                break
        else:
            n = v
        used.add(n)
        vmap[v] = n
    new_actions = []
    for a in rec.get("actions", []):
        pmap = {}
        usedp = set()
        for j, (pn, pt) in enumerate(a.get("params", [])):
            for _ in range(10):
                n = nm(rng, "param", j)
                if n not in usedp:
                    break
            else:
                n = pn
            usedp.add(n)
            pmap[pn] = n
        a2 = _rename_in(a, pmap, vmap)
        a2["name"] = a["name"]
        a2["params"] = [[pmap[pn], pt] for pn, pt in a.get("params", [])]
        new_actions.append(a2)
    rec["actions"] = new_actions
    for k in ("goals", "invariants", "init", "traj", "timed_goals", "timed_effects", "metric"):
        if k in rec and rec[k]:
            rec[k] = _rename_in(rec[k], {}, vmap)
    return rec

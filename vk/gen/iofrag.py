"""Workload for the I/O round-trip checks C18 / C19 (owner: io-roundtrip).

Wraps vk.gen.problem.gen_problem (not edited) and post-processes its JSON recipes so that they stay inside the fragment a
target language can express, while planting the constructs the properties name: adversarial identifiers, finite-decimal
rationals (decimalize / plant_decimal_counter: Real constants such as 1/10, 3/10, 7/20 that no binary float represents, in
initial values, effect values, conditions, durations, type bounds), nested non-commutative numeric expressions, action costs, durative actions, timed initial literals / effects, and (PDDL, strata of
gen_pddl_case) Boolean assignments whose value only the simplifier turns into a constant, a user type named `object`.
Everything here is recipe-level (plain JSON); nothing of the library is called.
"""
import copy
from fractions import Fraction

from vk.gen.problem import gen_problem

PDDL_KW = [
    "and", "or", "not", "at", "start", "end", "over", "all", "forall", "exists", "when", "object", "number", "either",
    "increase", "decrease", "assign", "define", "domain", "problem", "action", "total-time", "always", "sometime", "imply",
    "duration", "init", "goal", "constants", "objects", "metric", "minimize", "scale-up", "within", "preference",
]  # fmt: skip
ANML_KW = [
    "action", "fluent", "constant", "type", "instance", "start", "end", "all", "duration", "integer", "float", "boolean",
    "true", "false", "when", "forall", "exists", "and", "or", "not", "in", "with", "goal", "object", "infinity", "UNDEFINED",
    "implies", "iff", "xor", "fact", "function", "predicate", "variable", "rational", "string", "set", "contains", "use",
]  # fmt: skip
CASE_TRAPS = ["Foo", "FOO", "foo", "fOO", "Bar", "bar", "BAR"]
DIGITS = ["1abc", "9", "0x", "2_2", "7up"]
SYMBOLS = ["a b", "a.b", "a+b", "x?y", "a-b", "p/q", "a(b)", "#t", "?x", "a:b", "x y z", "é1", "a'b", "-x", "_u"]
MANGLED = {"f": ["f_1abc", "f_9", "and_", "foo_0", "a_b", "at_"], "o": ["o_1abc", "o_9", "foo_0", "start_", "o_0x"], "a": ["a_1abc", "a_9", "foo_1", "end_", "a_b"], "T": ["x_1abc", "object_", "foo_0", "t_9", "number_"]}
PLAIN_LIKE = ["a_b", "b_c", "ab", "abc", "a_b_c", "x1", "x10", "x1_0"]


def adversarial_names(lang="pddl", p=0.6, p_symbols=0.2):
    """A `names` callable for vk.gen.problem profiles."""
    kws = PDDL_KW if lang == "pddl" else ANML_KW
    lo = 0.58 + p_symbols

    def nm(rng, kind, i):
        if rng.random() > p:
            return f"{kind}{i}"
        x = rng.random()
        if x < 0.28:
            return rng.choice(kws)
        if x < 0.45:
            return rng.choice(CASE_TRAPS)
        if x < 0.58:
            return rng.choice(DIGITS)
        if x < lo:
            return rng.choice(SYMBOLS)
        if x < 0.9:
            return rng.choice(MANGLED.get(kind, MANGLED["f"]))
        return rng.choice(PLAIN_LIKE)

    return nm


PARAM_NAMES = ["Y0", "and", "1p", "x-y", "duration", "start", "P q", "object", "y0_", "p_1p", "when", "Y1", "total-cost", "at"]


# ---- recipe walkers ---------------------------------------------------------------------------------------------------------
def _is_expr(x):
    return isinstance(x, list) and x and isinstance(x[0], str)


def map_expr(e, fn):
    """Bottom-up map over an expression recipe (fn gets the rebuilt node)."""
    if not _is_expr(e):
        return e
    k = e[0]
    if k in ("b", "i", "r", "o", "p"):
        return fn(list(e))
    if k == "v":
        return fn(list(e))
    if k in ("exists", "forall"):
        return fn([k, e[1], map_expr(e[2], fn)])
    if k in ("f", "if"):
        return fn([k, e[1]] + [map_expr(a, fn) for a in e[2:]])
    if k == "dot":
        return fn([k, e[1], map_expr(e[2], fn)])
    return fn([k] + [map_expr(a, fn) for a in e[1:]])


def _map_effect(eff, fn):
    out = dict(eff)
    out["fluent"] = map_expr(eff["fluent"], fn)
    out["value"] = map_expr(eff["value"], fn)
    if eff.get("cond") is not None:
        out["cond"] = map_expr(eff["cond"], fn)
    return out


def map_problem_exprs(rec, fn):
    """Apply fn to every expression of a problem recipe (returns a new recipe)."""
    r = copy.deepcopy(rec)
    for f in r.get("fluents", []):
        if f.get("default") is not None:
            f["default"] = map_expr(f["default"], fn)
    for a in r.get("actions", []):
        if "duration" in a:
            a["duration"] = [a["duration"][0]] + [map_expr(x, fn) for x in a["duration"][1:]]
            a["conds"] = [[iv, map_expr(c, fn)] for iv, c in a.get("conds", [])]
            a["effects"] = [[t, _map_effect(e, fn)] for t, e in a.get("effects", [])]
        else:
            a["pre"] = [map_expr(c, fn) for c in a.get("pre", [])]
            a["effects"] = [_map_effect(e, fn) for e in a.get("effects", [])]
    r["init"] = [[map_expr(fe, fn), map_expr(v, fn)] for fe, v in r.get("init", [])]
    for k in ("goals", "invariants", "traj"):
        if k in r:
            r[k] = [map_expr(g, fn) for g in r[k]]
    if r.get("timed_effects"):
        r["timed_effects"] = [[t, _map_effect(e, fn)] for t, e in r["timed_effects"]]
    if r.get("timed_goals"):
        r["timed_goals"] = [[iv, map_expr(g, fn)] for iv, g in r["timed_goals"]]
    m = r.get("metric")
    if m:
        if m["kind"] == "costs":
            m["costs"] = {a: map_expr(c, fn) for a, c in m["costs"].items()}
            if m.get("default") is not None:
                m["default"] = map_expr(m["default"], fn)
        elif m["kind"] in ("minfinal", "maxfinal"):
            m["expr"] = map_expr(m["expr"], fn)
        elif m["kind"] == "oversub":
            m["goals"] = [[map_expr(g, fn), w] for g, w in m["goals"]]
    return r


def all_exprs(rec):
    out = []
    map_problem_exprs(rec, lambda e: (out.append(e), e)[1])
    return out


def has_fluent(e):
    found = []
    map_expr(e, lambda x: (found.append(1) if x[0] == "f" else None, x)[1])
    return bool(found)


def num_depth(e):
    """Nesting depth of arithmetic operators in an expression recipe."""
    if not _is_expr(e):
        return 0
    sub = max([num_depth(a) for a in e[1:] if _is_expr(a)] or [0])
    return sub + (1 if e[0] in ("plus", "minus", "times", "div") else 0)


def nested_noncommutative(rec):
    """Set of {'minus','div'} for which the recipe has a right-nested occurrence a op (b op c)."""
    out = set()

    def fn(e):
        if e[0] in ("minus", "div") and _is_expr(e[2]) and e[2][0] == e[0]:
            out.add(e[0])
        return e

    map_problem_exprs(rec, fn)
    return out


# ---- fragment restrictions ---------------------------------------------------------------------------------------------------
def _finite_decimal(fr):
    d = fr.denominator
    for p in (2, 5):
        while d % p == 0:
            d //= p
    return d == 1


def finite_decimals(rec):
    """Replace rational constants without a finite decimal expansion (PDDL prints decimals)."""

    def fn(e):
        if e[0] == "r":
            fr = Fraction(e[1])
            if not _finite_decimal(fr):
                return ["r", str(Fraction(fr.numerator, 4 if fr.denominator % 2 else 8))]
        return e

    return map_problem_exprs(rec, fn)


# Real constants with a finite but non-dyadic decimal expansion (1/10, 1/5, 3/10, 7/20 = 0.35, ...): exactly the numbers a decimal
# notation can denote and a binary float cannot - any conversion through float on either side of a round trip moves them by ~1e-17
DECIMAL_STEPS = ["1/10", "1/5", "3/10", "7/20", "2/5", "1/20", "7/10", "1/10", "1/5", "3/10"]


def non_dyadic_decimal(fr):
    """fr has a finite decimal expansion and is no dyadic rational (its reduced denominator is 2^a * 5^b with b >= 1)."""
    fr = Fraction(fr)
    return _finite_decimal(fr) and fr.denominator % 5 == 0


def has_non_dyadic_decimals(rec):
    """Number of non-dyadic finite-decimal constants in the recipe's expressions (+ type bounds)."""
    n = sum(1 for e in all_exprs(rec) if e[0] == "r" and non_dyadic_decimal(e[1]))
    for f in rec["fluents"]:
        t = f["type"]
        if t != "bool" and t[0] == "real":
            n += sum(1 for b in t[1:3] if b is not None and non_dyadic_decimal(b))
    return n


def decimalize(rng, rec, p_const=0.6, p_bounds=0.35, finite=False):
    """Widen the numeric part of a recipe to non-dyadic finite-decimal Real constants.
    * every integer fluent becomes a real fluent (same bounds), so that every numeric position takes Real constants;
    * numeric constants of initial values / defaults, effect values, conditions, goals, metric expressions are moved (with
      probability p_const each) by a step of DECIMAL_STEPS, keeping sign and non-zero-ness (divisors stay non-zero); initial
      values / defaults stay inside their fluent's bounds. The steps are few and shared: values reached by adding such
      constants a few times meet the constants conditions compare against (level >= 1/10 after 3/10 - 1/10 - 1/10);
    * bounds of bounded real fluents are moved outwards to such constants with probability p_bounds.
    finite: the result must keep finite decimal expansions (PDDL) - constants that have none are left alone."""
    r = copy.deepcopy(rec)
    bounds = {}
    for f in r["fluents"]:
        t = f["type"]
        if t != "bool" and t[0] == "int":
            f["type"] = t = ["real", None if t[1] is None else str(t[1]), None if t[2] is None else str(t[2])]
        if t != "bool" and t[0] == "real":
            lo, hi = (None if t[1] is None else Fraction(t[1])), (None if t[2] is None else Fraction(t[2]))
            if (lo is not None or hi is not None) and rng.random() < p_bounds:
                if hi is not None:
                    hi = hi + Fraction(rng.choice(DECIMAL_STEPS))
                if lo is not None and lo >= 1:
                    lo = lo - Fraction(rng.choice(DECIMAL_STEPS))
                f["type"] = ["real", None if lo is None else str(lo), None if hi is None else str(hi)]
            bounds[f["name"]] = (lo, hi)

    def move(c, lo=None, hi=None, p=p_const):
        c = Fraction(c)
        if rng.random() >= p or (finite and not _finite_decimal(c)):
            return c
        m = abs(c)
        steps = [Fraction(x) for x in DECIMAL_STEPS]
        cands = [m + d for d in steps] + [m - d for d in steps if m - d > 0]
        if c == 0:
            cands = [Fraction(0)] + steps[:3]
        cands = [v if c >= 0 else -v for v in cands]
        cands = [v for v in cands if (lo is None or v >= lo) and (hi is None or v <= hi)]
        return rng.choice(cands) if cands else c

    def const(e, lo=None, hi=None, p=p_const):
        v = move(e[1], lo, hi, p)
        return ["i", int(v)] if v.denominator == 1 else ["r", str(v)]

    def fn(e):
        return const(e) if e[0] in ("i", "r") else e

    # initial values / defaults first (inside the bounds), then everything else
    for f in r["fluents"]:
        d = f.get("default")
        if d is not None and d[0] in ("i", "r") and f["name"] in bounds:
            f["default"] = const(d, *bounds[f["name"]], p=0.75)
    init = [[fe, (const(v, *bounds[fe[1]], p=0.75) if v[0] in ("i", "r") and fe[1] in bounds else v)] for fe, v in r.get("init", [])]
    keep = {f["name"]: f.get("default") for f in r["fluents"]}
    r["init"] = []
    r = map_problem_exprs(r, fn)
    r["init"] = init
    for f in r["fluents"]:
        f["default"] = keep[f["name"]]
    return r


def plant_decimal_counter(rng, rec):
    """A numeric fluent that an (instantaneous) action raises / lowers by a DECIMAL_STEPS constant each time it is applied,
    guarded by a comparison with a multiple of that step and initialised to a multiple of it: applying the action a few times
    accumulates the constant and lands exactly on the compared value (level = 3/10; needs level >= 1/10, lowers it by 1/10)."""
    r = copy.deepcopy(rec)
    acts = [a for a in r["actions"] if "duration" not in a]
    if not acts:
        return r
    a = rng.choice(acts)
    written = {e["fluent"][1] for e in a["effects"]}
    nf = [(f, fe) for f, fe in _ground_num_fluents(rng, r, a["params"]) if f["name"] not in written]
    if not nf:
        return r
    f, fe = rng.choice(nf)
    step = Fraction(rng.choice(DECIMAL_STEPS))
    k = rng.choice([2, 3, 3, 4])
    lo = None if f["type"][1] is None else Fraction(f["type"][1])
    hi = None if f["type"][2] is None else Fraction(f["type"][2])
    kind = rng.choice(["inc", "dec"])
    a["effects"].append({"kind": kind, "fluent": fe, "value": ["r", str(step)], "cond": None, "forall": []})
    x = rng.random()
    if x < 0.7:
        # dec: applicable k times from k * step; inc: applicable until (k + 2) * step is passed
        a["pre"] = a.get("pre", []) + [["ge", fe, ["r", str(step)]] if kind == "dec" else ["le", fe, ["r", str((k + 2) * step)]]]
    start = k * step
    if (lo is None or start >= lo) and (hi is None or start <= hi):
        v = ["i", int(start)] if start.denominator == 1 else ["r", str(start)]
        r["init"] = [[g, (v if g[1] == f["name"] else w)] for g, w in r["init"]]
        if f.get("default") is not None:
            f["default"] = v
    return r


def no_minus_no_negatives(rec):
    """The third-party `pddl` parser (AI-planning reader) cannot read binary minus or negative literals."""

    def fn(e):
        if e[0] == "minus":
            return ["plus", e[1], e[2]]
        if e[0] == "i" and int(e[1]) < 0:
            return ["i", -int(e[1])]
        if e[0] == "r" and Fraction(e[1]) < 0:
            return ["r", str(-Fraction(e[1]))]
        return e

    return map_problem_exprs(rec, fn)


def closed_world_booleans(rec):
    """PDDL cannot say 'undefined' for a predicate: Boolean fluents without a default get the default false."""
    r = copy.deepcopy(rec)
    for f in r["fluents"]:
        if f["type"] == "bool" and f.get("default") is None:
            f["default"] = ["b", False]
    return r


def nonconstant_goals(rng, rec):
    """Goals without any fluent reference are replaced by a Boolean fluent atom (constant goals are a separate, rare class)."""
    r = copy.deepcopy(rec)
    bfl = [f for f in r["fluents"] if f["type"] == "bool"]
    objs = {}
    for o, t in r["objects"]:
        objs.setdefault(t[1], []).append(o)
    sub = {}
    for n, father in r["types"]:
        sub.setdefault(n, [n])
    for n, father in r["types"]:
        x = father
        while x:
            sub.setdefault(x, [x]).append(n)
            x = next((f for nn, f in r["types"] if nn == x), None)

    def atom():
        f = rng.choice(bfl)
        args = []
        for _, pt in f["sig"]:
            cands = [o for t in sub.get(pt[1], [pt[1]]) for o in objs.get(t, [])]
            if not cands:
                return None
            args.append(["o", rng.choice(cands)])
        return ["f", f["name"]] + args

    def no_bool_leaves(g):
        def fn(e):
            const_eq = e[0] == "eq" and all(_is_expr(x) and x[0] in ("o", "i", "r") for x in e[1:])
            if (e[0] == "b" or const_eq) and bfl:
                a = atom()
                return a if a is not None else e
            return e

        return map_expr(g, fn)

    goals = []
    for g in r["goals"]:
        if not has_fluent(g) and bfl:
            a = atom()
            goals.append(a if a is not None else g)
        else:
            goals.append(no_bool_leaves(g))
    r["goals"] = goals
    m = r.get("metric")

    def zero_product(e):
        found = []
        map_expr(e, lambda x: (found.append(1) if x[0] == "times" and any(_is_expr(a) and a[0] in ("i", "r") and Fraction(a[1]) == 0 for a in x[1:]) else None, x)[1])
        return bool(found)

    if m and m["kind"] in ("minfinal", "maxfinal") and has_fluent(m["expr"]) and zero_product(m["expr"]):
        # `f * 0` simplifies to the constant 0: a constant metric is no metric (and `(:metric maximize 0)` is a separate, rare
        # class: the UP reader's grammar cannot parse it - mechanism reader-raises:up:constant-metric)
        nf = _ground_num_fluents(rng, r)
        if nf:
            m["expr"] = ["plus", rng.choice(nf)[1], ["i", 1]]
    if m and m["kind"] in ("minfinal", "maxfinal") and not has_fluent(m["expr"]):
        nf = _ground_num_fluents(rng, r)
        if nf:
            m["expr"] = ["plus", rng.choice(nf)[1], m["expr"]]
        else:
            r["metric"] = None
    return r


def simple_goals(rec):
    """Goals without or / imply / iff / quantifiers (the third-party parser behind the AI-planning reader parses the goal with
    a requirement-less transformer and rejects each of them with PDDLMissingRequirementError, whatever the files declare):
    such a goal is replaced by its first ground Boolean fluent atom, or dropped when it has none and other goals remain."""
    r = copy.deepcopy(rec)
    bools = {f["name"] for f in r["fluents"] if f["type"] == "bool"}
    heavy = ("or", "implies", "iff", "exists", "forall")

    def is_heavy(g):
        found = []
        map_expr(g, lambda e: (found.append(1) if e[0] in heavy else None, e)[1])
        return bool(found)

    def first_atom(g):
        found = []

        def fn(e):
            if e[0] == "f" and e[1] in bools and all(_is_expr(a) and a[0] == "o" for a in e[2:]):
                found.append(e)
            return e

        map_expr(g, fn)
        return found[0] if found else None

    goals = []
    for g in r["goals"]:
        if not is_heavy(g):
            goals.append(g)
            continue
        a = first_atom(g)
        if a is not None:
            goals.append(a)
    if not goals and r["goals"]:
        return rec
    r["goals"] = goals
    return r


def rename_params(rng, rec, p=0.4):
    r = copy.deepcopy(rec)
    for a in r["actions"]:
        if not a["params"] or rng.random() > p:
            continue
        names = rng.sample(PARAM_NAMES, len(a["params"]))
        ren = {old[0]: new for old, new in zip(a["params"], names)}
        a["params"] = [[ren[n], t] for n, t in a["params"]]

        def fn(e, ren=ren):
            if e[0] == "p" and e[1] in ren:
                return ["p", ren[e[1]]]
            return e

        if "duration" in a:
            a["duration"] = [a["duration"][0]] + [map_expr(x, fn) for x in a["duration"][1:]]
            a["conds"] = [[iv, map_expr(c, fn)] for iv, c in a.get("conds", [])]
            a["effects"] = [[t, _map_effect(e, fn)] for t, e in a.get("effects", [])]
        else:
            a["pre"] = [map_expr(c, fn) for c in a["pre"]]
            a["effects"] = [_map_effect(e, fn) for e in a["effects"]]
        m = r.get("metric")
        if m and m["kind"] == "costs" and a["name"] in m["costs"]:
            m["costs"][a["name"]] = map_expr(m["costs"][a["name"]], fn)
    return r


def _ground_num_fluents(rng, rec, scope_params=()):
    """Numeric fluent expressions usable in an action with the given parameters (ground or parameter arguments)."""
    objs = {}
    for o, t in rec["objects"]:
        objs.setdefault(t[1], []).append(o)
    fathers = {n: f for n, f in rec["types"]}

    def is_sub(t, sup):
        while t is not None:
            if t == sup:
                return True
            t = fathers.get(t)
        return False

    out = []
    for f in rec["fluents"]:
        if f["type"] != "bool" and f["type"][0] in ("int", "real"):
            args = []
            ok = True
            for _, pt in f["sig"]:
                cands = [["p", pn] for pn, ptt in scope_params if ptt[0] == "user" and is_sub(ptt[1], pt[1])]
                cands += [["o", o] for t, os in objs.items() if is_sub(t, pt[1]) for o in os]
                if not cands:
                    ok = False
                    break
                args.append(rng.choice(cands))
            if ok:
                out.append((f, ["f", f["name"]] + args))
    return out


def plant_nested_numeric(rng, rec, minus=True, decimals=True, prefer=None):
    """Plant a-(b-c), (a-b)-c, a/(b/c), (a/b)/c (divisors are non-zero constants) into a precondition and an effect value.
    prefer: "minus" | "div" - the planted precondition is the right-nested form a op (b op c) of that operator."""
    r = copy.deepcopy(rec)
    acts = [a for a in r["actions"] if not a.get("_planted")]  # (actions planted by plant_constant_bool_assignment stay as they are)
    if not acts:
        return r
    a = rng.choice(acts)
    nf = _ground_num_fluents(rng, r, a["params"])
    if not nf:
        return r

    def leaf(real_ok=True):
        x = rng.random()
        if x < 0.55:
            return rng.choice(nf)[1]
        if x < 0.8 or not (real_ok and decimals):
            return ["i", rng.choice([1, 2, 3, 5, 7])]
        return ["r", rng.choice(["1/2", "3/4", "5/2", "1/8", "7/5", "1/10"])]

    def nz():
        return rng.choice([["i", 2], ["i", 4], ["i", 5], ["r", "1/2"], ["r", "5/2"], ["i", 8]])

    forms = []
    if minus:
        forms += [lambda: ["minus", leaf(), ["minus", leaf(), leaf()]], lambda: ["minus", ["minus", leaf(), leaf()], leaf()]]
        forms += [lambda: ["minus", leaf(), ["plus", leaf(), leaf()]], lambda: ["div", ["minus", leaf(), leaf()], nz()]]
    forms += [lambda: ["div", leaf(), ["div", nz(), nz()]], lambda: ["div", ["div", leaf(), nz()], nz()]]
    forms += [lambda: ["times", ["div", leaf(), nz()], leaf(False)], lambda: ["div", leaf(), ["times", nz(), nz()]]]
    e1 = rng.choice(forms)()
    if prefer == "minus" and minus:
        e1 = ["minus", leaf(), ["minus", leaf(), leaf()]]
    elif prefer in ("minus", "div"):
        e1 = ["div", leaf(), ["div", nz(), nz()]]
    cmp_ = [rng.choice(["le", "lt", "ge", "gt"]), e1, leaf()]
    if rng.random() < 0.5:
        cmp_ = [cmp_[0], cmp_[2], cmp_[1]]
    if rng.random() < 0.5:
        cmp_ = ["or", cmp_, ["not", cmp_]] if rng.random() < 0.3 else cmp_
    key = "conds" if "duration" in a else "pre"
    if "duration" in a:
        a.setdefault("conds", []).append([["point", ["start"]], cmp_])
    else:
        a.setdefault("pre", []).append(cmp_)
    # effect value on a real-valued (or any numeric, if the expression is integral) fluent
    reals = [(f, fe) for f, fe in nf if f["type"][0] == "real"]
    tgt = rng.choice(reals) if reals else None
    if tgt is not None:
        e2 = rng.choice(forms)()
        kind = rng.choice(["assign", "inc", "dec"])
        eff = {"kind": kind, "fluent": tgt[1], "value": e2, "cond": None, "forall": []}
        used = {str(e["fluent"][1]) for e in (x[1] if "duration" in a else x for x in a["effects"])}
        if tgt[0]["name"] not in used:
            if "duration" in a:
                a["effects"].append([["end"], eff])
            else:
                a["effects"].append(eff)
    return r


# ---- planted writer traps (strata of C18's workload) -------------------------------------------------------------------------
# Boolean expressions that are no constants but that the library's simplifier reduces to the constant false: the PDDL writer
# (rewrite_bool_assignments) splits `f := e` into `when e: f` / `when not e: not f` and simplifies both conditions, so for
# these values only the unconditional delete effect `(not (f ...))` remains.
CONSTANT_BOOL_FORMS = ["and-not", "not-true", "cmp-consts", "eq-objects", "and-false", "not-or", "not-eq-self", "exists-false", "not-implies", "decimal-cmp"]


def _bool_atoms(rng, rec, scope_params=(), scope_vars=()):
    """Boolean fluent expressions usable with the given parameters / variables (ground, parameter or variable arguments)."""
    objs = {}
    for o, t in rec["objects"]:
        objs.setdefault(t[1], []).append(o)
    fathers = {n: f for n, f in rec["types"]}

    def is_sub(t, sup):
        while t is not None:
            if t == sup:
                return True
            t = fathers.get(t)
        return False

    out = []
    for f in rec["fluents"]:
        if f["type"] != "bool":
            continue
        args = []
        for _, pt in f["sig"]:
            cands = [["v", vn, vt] for vn, vt in scope_vars if is_sub(vt[1], pt[1])] * 3
            cands += [["p", pn] for pn, ptt in scope_params if ptt[0] == "user" and is_sub(ptt[1], pt[1])] * 2
            cands += [["o", o] for t, os in objs.items() if is_sub(t, pt[1]) for o in os]
            if not cands:
                args = None
                break
            args.append(rng.choice(cands))
        if args is not None:
            out.append((f, ["f", f["name"]] + args))
    return out


def constant_valued_bool(rng, rec, form, value, scope_params=(), scope_vars=()):
    """A non-constant Boolean expression recipe that simplifies to the constant `value`; `form` is one of CONSTANT_BOOL_FORMS
    (a form whose ingredients the recipe lacks - two objects of one type, a parameter, a type - falls back to `and-not`)."""
    atoms = _bool_atoms(rng, rec, scope_params, scope_vars)
    g = rng.choice(atoms)[1] if atoms else ["gt", ["i", 0], ["i", 1]]
    by_type = {}
    for o, t in rec["objects"]:
        by_type.setdefault(t[1], []).append(o)
    pairs = [os for os in by_type.values() if len(os) >= 2]
    uparams = [pn for pn, pt in scope_params if pt[0] == "user"]
    e = None
    if form == "not-true":
        e = ["not", ["b", True]]
    elif form == "cmp-consts":
        a, b = rng.sample([0, 1, 2, 3, 5, 7], 2)
        e = [rng.choice(["gt", "ge"]), ["i", min(a, b)], ["i", max(a, b)]] if rng.random() < 0.5 else [rng.choice(["lt", "le"]), ["i", max(a, b)], ["i", min(a, b)]]
    elif form == "decimal-cmp":
        e = ["le", ["r", "3/10"], ["r", "1/10"]] if rng.random() < 0.5 else ["eq", ["r", "1/5"], ["r", "7/20"]]
    elif form == "eq-objects" and pairs:
        a, b = rng.sample(rng.choice(pairs), 2)
        e = ["eq", ["o", a], ["o", b]]
    elif form == "and-false":
        e = ["and", g, ["b", False]] if rng.random() < 0.5 else ["and", ["b", False], g]
    elif form == "not-or":
        e = ["not", ["or", g, ["not", g]]]
    elif form == "not-eq-self" and uparams:
        p = rng.choice(uparams)
        e = ["not", ["eq", ["p", p], ["p", p]]]
    elif form == "exists-false" and rec["types"]:
        t = rng.choice(rec["types"])[0]
        v = [f"q0_{t}", ["user", t]]
        inner = _bool_atoms(rng, rec, scope_params, list(scope_vars) + [v])
        body = rng.choice(inner)[1] if inner else g
        e = ["exists", [v], ["and", body, ["b", False]]]
    elif form == "not-implies":
        e = ["not", ["implies", g, g]]
    if e is None:
        e = ["and", g, ["not", g]] if rng.random() < 0.5 else ["and", ["not", g], g]
    return e if not value else ["not", e]


def plant_constant_bool_assignment(rng, rec, form, value=False, own_action=True, need_pre=False):
    """Plant `f(..) := e` (unconditional; sometimes under a forall) where e = constant_valued_bool(form, value) and every ground
    instance of the Boolean fluent f starts with the *opposite* value, so that the effect changes the state whenever its action
    is applied.  own_action: the effect is the only effect of a new action without precondition (applicable in every state;
    need_pre: with the tautology `o == o` as precondition, which the writer prints as `:precondition (and )`); otherwise it is
    appended to an existing action that does not write f (falls back to a new action).
    -> (recipe, {"fluent", "action", "form", "value", "forall", "own_action"})"""
    r = copy.deepcopy(rec)
    bfl = [f for f in r["fluents"] if f["type"] == "bool"]
    if not bfl:
        return r, None
    f = rng.choice(bfl)
    f["default"] = ["b", not value]
    r["init"] = [[fe, (["b", not value] if fe[1] == f["name"] else v)] for fe, v in r["init"]]
    host = None
    if not own_action:
        cands = [a for a in r["actions"] if "duration" not in a and all(e["fluent"][1] != f["name"] for e in a["effects"])]
        host = rng.choice(cands) if cands else None
    if host is None:
        own_action = True
        used = {a["name"] for a in r["actions"]} | {x["name"] for x in r["fluents"]} | {o for o, _ in r["objects"]} | {t for t, _ in r["types"]}
        name = next(n for n in [f"a{len(r['actions'])}", "a_const", "a_const_1", "a_const_2"] + [f"a_const_{k}" for k in range(3, 40)] if n not in used)
        host = {"name": name, "params": [[f"y{j}", pt] for j, (_, pt) in enumerate(f["sig"])], "pre": [], "effects": [], "_planted": True}
        if need_pre and r["objects"]:
            o = rng.choice(r["objects"])[0]
            host["pre"] = [["eq", ["o", o], ["o", o]]]
        r["actions"].append(host)
        args = [["p", pn] for pn, _ in host["params"]]
    else:
        args = None
    forall = []
    if f["sig"] and rng.random() < 0.3:
        forall = [[f"e_{f['sig'][0][1][1]}", f["sig"][0][1]]]
    if args is None:
        atoms = [fe for g, fe in _bool_atoms(rng, r, host["params"]) if g is f]
        if not atoms:
            return rec, None
        args = atoms[0][2:]
    if forall:
        args = [["v", forall[0][0], forall[0][1]]] + args[1:]
        if own_action:
            host["params"] = host["params"][1:]
            args = [args[0]] + [["p", pn] for pn, _ in host["params"]]
    e = constant_valued_bool(rng, r, form, value, host["params"], forall)
    host["effects"].append({"kind": "assign", "fluent": ["f", f["name"]] + args, "value": e, "cond": None, "forall": forall})
    return complete_action_costs(r), {"fluent": f["name"], "action": host["name"], "form": form, "value": value, "forall": bool(forall), "own_action": own_action}


# PDDL's root type is called `object`: a *user* type of that name (PDDL is case-insensitive) next to other root types must not be
# written as `object`, or every other type becomes its subtype when the files are read back
OBJECT_TYPE_NAMES = ["object", "Object", "OBJECT", "object", "oBjEcT"]


def object_type_names(base, type_name, slot):
    """A `names` callable (vk.gen.problem profiles) that calls the user type number `slot` type_name and delegates the rest."""

    def nm(rng, kind, i):
        if kind == "T" and i == slot:
            return type_name
        return base(rng, kind, i) if base else f"{kind}{i}"

    return nm


def use_type_as_parameter(rng, rec, type_name):
    """Make sure that some action has a parameter of the given user type and some action one of another type (extra, unused
    parameters: the ground instances of the action then depend on the extension of the type)."""
    r = copy.deepcopy(rec)
    if not r["actions"]:
        return r
    others = [t for t, _ in r["types"] if t != type_name]
    for want in ([type_name], others):
        if want and not any(pt[0] == "user" and pt[1] in want for a in r["actions"] for _, pt in a["params"]):
            a = rng.choice(r["actions"])
            used = {pn for pn, _ in a["params"]}
            a["params"] = a["params"] + [[next(n for n in (f"y{k}" for k in range(9)) if n not in used), ["user", rng.choice(want)]]]
    return r


# ---- temporal part --------------------------------------------------------------------------------------------------------
DUR_CONST =[["i", 1], ["i", 2], ["i", 3], ["r", "1/2"], ["r", "5/2"], ["i", 5], ["r", "3/4"], ["r", "3/10"], ["r", "27/10"]]


def durativize(rng, rec, lang="pddl", p=0.7, ice=0.0, form=None, cond_form=None):
    """Turn some instantaneous actions of a recipe into durative ones.
    PDDL: conditions at start / at end / over all (and their closed combinations), effects at start / at end.
    ANML (ice>0): additionally intermediate time points start+d / end-d.
    form: duration-interval form of the first action, which is then always made durative (stratified workloads);
    cond_form: interval form of that action's first condition ("start" | "end" | "open" | "closed" | "lopen" | "ropen"); an
    action without precondition gets the first goal as condition."""
    r = copy.deepcopy(rec)
    acts = []
    any_dur = False
    for ai, a in enumerate(r["actions"]):
        forced = form is not None and ai == 0
        if rng.random() > p and not forced:
            acts.append(a)
            continue
        any_dur = True
        nf = _ground_num_fluents(rng, r, a["params"])
        static_like = [fe for f, fe in nf]

        def bound():
            x = rng.random()
            if x < 0.7 or not static_like:
                return rng.choice(DUR_CONST)
            if x < 0.85:
                return ["plus", rng.choice(static_like), rng.choice(DUR_CONST)]
            return rng.choice(static_like)

        dform = rng.choice(["fixed", "fixed", "closed", "open", "lopen", "ropen"])
        if forced:
            dform = form
        if dform == "fixed":
            dur = ["fixed", bound()]
        else:
            lo = rng.choice(DUR_CONST)
            hi = ["r", str(Fraction(lo[1]) + rng.choice([1, 2, Fraction(1, 2)]))]
            if rng.random() < 0.25 and static_like:
                hi = ["plus", rng.choice(static_like), hi]
            dur = [dform, lo, hi]

        def tp(which):
            if ice and rng.random() < ice:
                d = rng.choice(["1/2", "1", "1/4"])
                return [which, d if which == "start" else "-" + d]
            return [which]

        conds = []
        pre = list(a.get("pre", []))
        if forced and cond_form and not pre and r["goals"]:
            pre = [r["goals"][0]]
        for ci, c in enumerate(pre):
            x = rng.random()
            if forced and cond_form and ci == 0:
                if cond_form in ("start", "end"):
                    conds.append([["point", [cond_form]], c])
                elif cond_form == "ice-open" and ice:
                    conds.append([["open", ["start", "1/2"], ["end"]], c])
                elif cond_form == "ice-point" and ice:
                    conds.append([["point", ["end", "-1/4"]], c])
                elif cond_form.startswith("ice"):
                    conds.append([["open", ["start"], ["end"]], c])
                else:
                    conds.append([[cond_form, ["start"], ["end"]], c])
                continue
            if x < 0.3:
                iv = ["point", tp("start")]
            elif x < 0.45:
                iv = ["point", tp("end")]
            else:
                iv = [rng.choice(["open", "open", "closed", "lopen", "ropen"]), tp("start"), tp("end")]
                if ice and iv[1] != ["start"] and iv[2] != ["end"]:
                    iv[2] = ["end"]
            conds.append([iv, c])
        effs = []
        for e in a.get("effects", []):
            effs.append([tp(rng.choice(["start", "end", "end"])), e])
        acts.append({"name": a["name"], "params": a["params"], "duration": dur, "conds": conds, "effects": effs})
        if a.get("_planted"):
            acts[-1]["_planted"] = True
    r["actions"] = acts
    if not any_dur:
        return r, False
    return r, True


def add_timed_effects(rng, rec, n=2, numeric=True):
    """Timed initial literals / numeric timed initial effects on ground fluents."""
    r = copy.deepcopy(rec)
    objs = {}
    for o, t in r["objects"]:
        objs.setdefault(t[1], []).append(o)
    fathers = {nn: f for nn, f in r["types"]}

    def is_sub(t, sup):
        while t is not None:
            if t == sup:
                return True
            t = fathers.get(t)
        return False

    tes = []
    seen = set()
    for _ in range(n):
        f = rng.choice(r["fluents"])
        if f["type"] != "bool" and (not numeric or f["type"][0] not in ("int", "real")):
            continue
        args = []
        ok = True
        for _, pt in f["sig"]:
            cands = [o for t, os in objs.items() if is_sub(t, pt[1]) for o in os]
            if not cands:
                ok = False
                break
            args.append(["o", rng.choice(cands)])
        if not ok:
            continue
        fe = ["f", f["name"]] + args
        t = ["gstart", rng.choice(["1", "2", "5/2", "7", "1/2", "10"])]
        if (str(fe), str(t)) in seen or any(str(fe) == s[0] for s in seen):
            continue
        seen.add((str(fe), str(t)))
        if f["type"] == "bool":
            eff = {"kind": "assign", "fluent": fe, "value": ["b", rng.random() < 0.5], "cond": None, "forall": []}
        else:
            kind = rng.choice(["assign", "inc", "dec"])
            v = ["i", rng.choice([1, 2, 3])] if f["type"][0] == "int" else rng.choice([["i", 2], ["r", "1/2"], ["r", "5/4"], ["r", "1/10"], ["r", "7/20"]])
            eff = {"kind": kind, "fluent": fe, "value": v, "cond": None, "forall": []}
        tes.append([t, eff])
    r["timed_effects"] = tes
    return r


def add_timed_goals(rng, rec, n=1):
    r = copy.deepcopy(rec)
    tgs = []
    for g in r["goals"][:n]:
        lo = rng.choice(["1", "2", "1/2"])
        hi = str(Fraction(lo) + rng.choice([1, 3, Fraction(5, 2)]))
        form = rng.choice(["closed", "open", "lopen", "ropen", "point"])
        if form == "point":
            tgs.append([["point", ["gstart", lo]], g])
        else:
            tgs.append([[form, ["gstart", lo], ["gstart", hi]], g])
    r["timed_goals"] = tgs
    return r


def complete_action_costs(rec):
    """MinimizeActionCosts documents that every action's cost MUST be set, through the mapping or the default
    (model/metrics.py, get_action_cost): a cost metric that leaves an action without cost is not a valid model, and the PDDL
    writer is entitled to choke on it. The base generator sometimes leaves the default unset: give it the default 0."""
    m = rec.get("metric")
    if m and m["kind"] == "costs" and m.get("default") is None and any(a["name"] not in m["costs"] for a in rec["actions"]):
        rec = copy.deepcopy(rec)
        rec["metric"]["default"] = ["i", 0]
    return rec


# ---- top-level: one recipe per case ---------------------------------------------------------------------------------------
PDDL_BASE = dict(
    object_fluents=False,
    bounded=False,
    invariants=0.0,
    interpreted_functions=0.0,
    int_params=0.0,
    undefined_init=0.08,
    traj=0.0,
)


PDDL_VARIANT_CYCLE = ["classic", "ai-friendly", "temporal", "ai-friendly", "classic"]
DURATION_FORMS = ["fixed", "closed", "open", "lopen", "ropen", "fixed"]
COND_FORMS = ["open", "closed", "lopen", "ropen", "start", "ice-open", "end", "ice-point"]


# every PDDL_STRATUM_MOD-th case carries one planted writer trap on top of its variant (9 is coprime to the variant cycle, the
# decimal parity and the duration / nested-expression cycles: each stratum meets every variant)
PDDL_STRATUM_MOD = 9
PDDL_STRATA = {4: "constant-bool-assignment", 8: "type-named-object"}


def gen_pddl_case(rng, idx=None):
    """-> (recipe, info) ; info: variant, rewrite_bool_assignments, generator features, stratum / planted.
    idx (position of the case in the run) stratifies the variant so that small runs cover every class."""
    import random

    x = rng.random()
    if idx is None:
        variant = "classic" if x < 0.4 else ("ai-friendly" if x < 0.75 else "temporal")
    else:
        variant = PDDL_VARIANT_CYCLE[idx % len(PDDL_VARIANT_CYCLE)]
    stratum = None if idx is None else PDDL_STRATA.get(idx % PDDL_STRATUM_MOD)
    j = 0 if idx is None else idx // PDDL_STRATUM_MOD  # running index inside the stratum
    planted = None
    prof = dict(PDDL_BASE)
    adversarial = rng.random() < 0.65
    if adversarial:
        prof["names"] = adversarial_names("pddl")
    rewrite = variant != "temporal" and rng.random() < 0.35
    prof["bool_fluent_assign"] = rewrite
    y = rng.random()
    prof["metric"] = "costs" if y < 0.3 else ("length" if y < 0.38 else ("minfinal" if y < 0.44 else ("maxfinal" if y < 0.5 else None)))
    if variant == "temporal":
        prof["metric"] = "costs" if y < 0.2 else None
        prof["max_actions"] = 2
    if stratum == "type-named-object":
        # a flat typing with >= 2 root types, one of them called `object` (in some letter case), objects and parameters of both
        tname = OBJECT_TYPE_NAMES[j % len(OBJECT_TYPE_NAMES)]
        prof["hierarchy"] = False
        prof["names"] = object_type_names(prof.get("names"), tname, (j // len(OBJECT_TYPE_NAMES)) % 2)
        for _ in range(12):
            rec, feats = gen_problem(random.Random(rng.getrandbits(64)), prof)
            if len(rec["types"]) >= 2:
                break
        if len(rec["types"]) >= 2 and any(t == tname for t, _ in rec["types"]):
            rec = use_type_as_parameter(rng, rec, tname)
            planted = {"type": tname}
    else:
        rec, feats = gen_problem(rng, prof)
    rec = complete_action_costs(rec)
    rec = closed_world_booleans(rec)
    rec = finite_decimals(rec)
    rec = nonconstant_goals(rng, rec)
    decimals = (rng.random() < 0.4) if idx is None else idx % 2 == 1
    if decimals:
        rec = decimalize(rng, rec, p_bounds=0.0, finite=True)
        if rng.random() < 0.7:
            rec = plant_decimal_counter(rng, rec)
    if stratum == "constant-bool-assignment":
        # `f := e` with e non-constant but simplifying to false (every 7th: to true); two of three in an action of their own
        # that is applicable in every state. Planted before durativize: temporal cases get it `at start` / `at end`.
        rec, planted = plant_constant_bool_assignment(
            rng, rec, CONSTANT_BOOL_FORMS[j % len(CONSTANT_BOOL_FORMS)], value=j % 7 == 6, own_action=j % 3 != 2, need_pre=variant == "ai-friendly"
        )
        rewrite = rewrite or planted is not None
    has_dur = False
    if variant == "temporal":
        rec, has_dur = durativize(rng, rec, "pddl", form=None if idx is None else DURATION_FORMS[(idx // len(PDDL_VARIANT_CYCLE)) % len(DURATION_FORMS)])
        if rng.random() < 0.5:
            rec = add_timed_effects(rng, rec)
    if rng.random() < 0.7:
        prefer = None if idx is None else ("div" if variant == "ai-friendly" else ["minus", "div", None][(idx // len(PDDL_VARIANT_CYCLE)) % 3])
        rec = plant_nested_numeric(rng, rec, minus=variant != "ai-friendly", prefer=prefer)
    clean = False
    if variant == "ai-friendly":
        rec = no_minus_no_negatives(rec)
        clean = rng.random() < 0.85
        if clean:
            rec = avoid_parser_traps(rec)
        if rng.random() < 0.85:
            rec = simple_goals(rec)
        # the third-party parser needs a :precondition in every action; a tautology that only simplification removes makes
        # the writer print `:precondition (and )`
        for a in rec["actions"]:
            if "pre" in a and not a["pre"] and rec["objects"] and rng.random() < 0.85:
                o = rng.choice(rec["objects"])[0]
                a["pre"] = [["eq", ["o", o], ["o", o]]]
    if adversarial:
        rec = rename_params(rng, rec)
    # the writer's documented `empty_preconditions` flag prints `:precondition ()` for actions without preconditions
    empty_pre = rng.random() < (0.3 if not clean else 0.0)
    info = {"variant": variant, "rewrite": rewrite, "adversarial": adversarial, "features": feats, "durative": has_dur, "empty_pre": empty_pre, "decimals": decimals}
    if planted is not None:
        info["stratum"], info["planted"] = stratum, planted
    return rec, info


def anml_friendly_bounds(rec):
    """The ANML reader's grammar only accepts non-negative integer literals / decimal literals as type bounds (known
    limitation): most cases use such bounds, the rest keep negative / fractional / half-open ones."""
    r = copy.deepcopy(rec)
    shift = {}
    for f in r["fluents"]:
        t = f["type"]
        if t != "bool" and t[0] == "int" and t[1] is not None and t[1] < 0:
            shift[f["name"]] = -t[1]
            f["type"] = ["int", 0, None if t[2] is None else t[2] - t[1]]
        elif t != "bool" and t[0] == "int" and t[1] is None and t[2] is not None and t[2] < 0:
            f["type"] = ["int", None, 0]
        elif t != "bool" and t[0] == "real" and (t[1] is not None or t[2] is not None):
            f["type"] = ["real", "0", "4"]
    if shift:
        # keep initial values / defaults inside the shifted bounds
        for f in r["fluents"]:
            if f["name"] in shift and f.get("default") is not None and f["default"][0] == "i":
                f["default"] = ["i", int(f["default"][1]) + shift[f["name"]]]
        r["init"] = [[fe, (["i", int(v[1]) + shift[fe[1]]] if fe[1] in shift and v[0] == "i" else v)] for fe, v in r["init"]]
    return r


ANML_BASE = dict(
    interpreted_functions=0.0,
    int_params=0.0,
    undefined_init=0.08,
    traj=0.0,
    invariants=0.0,
)


def trim_actions(rec, max_pre=1, max_eff=2):
    """Keep at most max_pre preconditions and max_eff effects per action (smaller texts for the slow ANML reader)."""
    r = copy.deepcopy(rec)
    for a in r["actions"]:
        a["pre"] = a.get("pre", [])[:max_pre]
        a["effects"] = a["effects"][:max_eff]
    return r


def gen_anml_case(rng, idx=None):
    """idx (position of the case in the run) stratifies variant / duration form / timed effects / timed goals so that small
    runs cover every class (the ANML reader needs 0.5 - 3 CPU-seconds per text: the quick tier can only afford few cases)."""
    x = rng.random()
    t = None
    if idx is None:
        variant = "classic" if x < 0.45 else "temporal"
    else:
        variant = "classic" if idx % 5 in (0, 4) else "temporal"
        t = (idx // 5) * 3 + (idx % 5 - 1)  # running index of the temporal cases
    prof = dict(ANML_BASE)
    adversarial = rng.random() < 0.65
    if adversarial:
        # names that start with a letter and contain a symbol are not mangled by the ANML writer (C38's subject; C19 skips
        # such problems): keep them rare
        prof["names"] = adversarial_names("anml", p_symbols=0.03 if rng.random() < 0.85 else 0.2)
    if variant == "temporal":
        prof["max_actions"] = 2
    if idx is not None:
        # parsing time of the ANML reader grows steeply with the nesting depth of parentheses (nested infix_notation
        # grammars) and the writer parenthesises everything: most cases use shallow expressions
        prof["max_depth"] = 1 if rng.random() < 0.8 else 2
        prof["max_fluents"] = 3
        prof["max_actions"] = 2
        prof["max_objects"] = 3
    rec, feats = gen_problem(rng, prof)
    if idx is not None:
        rec = trim_actions(rec)
        rec["goals"] = rec["goals"][:1]
    rec = nonconstant_goals(rng, rec)
    if rng.random() < 0.8:
        rec = anml_friendly_bounds(rec)
    decimals = (rng.random() < 0.5) if idx is None else idx % 2 == 1
    if decimals:
        # Real constants with finite non-dyadic decimal expansions in initial values, effect values, conditions, type bounds
        rec = decimalize(rng, rec)
        if rng.random() < 0.7:
            rec = plant_decimal_counter(rng, rec)
    has_dur = False
    if variant == "temporal":
        rec, has_dur = durativize(
            rng, rec, "anml", ice=0.3, form=None if t is None else DURATION_FORMS[t % len(DURATION_FORMS)], cond_form=None if t is None else COND_FORMS[(t // len(DURATION_FORMS) + t) % len(COND_FORMS)]
        )
        if (rng.random() < 0.5) if t is None else (t % 2 == 0):
            rec = add_timed_effects(rng, rec)
        if (rng.random() < 0.35) if t is None else (t % 3 == 0):
            rec = add_timed_goals(rng, rec)
    if rng.random() < 0.7:
        rec = plant_nested_numeric(rng, rec, prefer=None if idx is None else ["minus", "div", None][idx % 3])
    if adversarial:
        rec = rename_params(rng, rec)
    return rec, {"variant": variant, "adversarial": adversarial, "features": feats, "durative": has_dur, "decimals": decimals}


# ---- known traps of the third-party `pddl` parser (behind the AI-planning reader) ----------------------------------------
def avoid_parser_traps(rec):
    """Rewrite a recipe so that its PDDL text avoids constructs the third-party parser is known to mis-read (its Plus/Times/And
    drop repeated operands, its Divide/Minus flatten nested occurrences): used for the majority of the cases so that they are
    judged without any known-defect tag; the remaining cases keep the constructs."""
    fresh = [["i", 3], ["i", 7], ["i", 11], ["i", 13], ["i", 17]]

    def flat(e, op):
        out = []
        for a in e[1:]:
            if _is_expr(a) and a[0] == op:
                out.extend(flat(a, op))
            else:
                out.append(a)
        return out

    def key(a):
        if _is_expr(a) and a[0] in ("i", "r"):
            return "num:" + str(Fraction(a[1]))
        return str(a)

    def fn(e):
        if e[0] in ("plus", "times"):
            ops = flat(e, e[0])
            seen, out, k = set(), [], 0
            for a in ops:
                while key(a) in seen:
                    a = fresh[k % len(fresh)]
                    k += 1
                seen.add(key(a))
                out.append(a)
            return [e[0]] + out
        if e[0] in ("div", "minus"):
            args = [(["i", 2] if _is_expr(a) and a[0] == e[0] else a) for a in e[1:]]
            return [e[0]] + args
        return e

    r = map_problem_exprs(rec, fn)
    for a in r["actions"]:
        effs = [x[1] for x in a["effects"]] if "duration" in a else a["effects"]
        seen = set()
        for eff in effs:
            if eff["kind"] in ("inc", "dec"):
                k = 0
                while str([eff["kind"], eff["fluent"], key(eff["value"]), eff.get("cond"), eff.get("forall")]) in seen:
                    eff["value"] = fresh[k % len(fresh)]
                    k += 1
                seen.add(str([eff["kind"], eff["fluent"], key(eff["value"]), eff.get("cond"), eff.get("forall")]))
    return r

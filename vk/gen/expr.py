"""Expression workloads: a small declared world (types, objects, fluents, a few actions so that some fluents are non-static)
plus typed expression recipes over its fluents, pseudo-parameters and free variables (DESIGN §4 gen/expr.py)."""
from fractions import Fraction

from vk.gen.problem import G

HUGE = [2**53 + 1, 2**60 + 2, 10**30, -(2**53 + 1), 3 * 2**61, 2**64 - 1, 10**18 + 7]
HUGE_FR = [Fraction(10**40 + 1, 3), Fraction(-(2**70) + 1, 2**10 + 1), Fraction(1, 10**25), Fraction(2**60 + 1, 7)]


class ExprWorld:
    def __init__(self, rng, profile=None, n_params=2, n_vars=1, int_params=True):
        self.rng = rng
        pf = dict(interpreted_functions=0.12, undefined_init=0.0, invariants=0.0, max_fluents=5, max_depth=2)
        if profile:
            pf.update(profile)
        self.g = G(rng, pf)
        self.rec = self.g.gen()
        # pseudo parameters / free variables usable in expressions
        self.params = []
        for j in range(n_params):
            if int_params and rng.random() < 0.4:
                self.params.append([f"n{j}", ["int", rng.choice([-3, 0, 1]), rng.choice([2, 3, 4])] if rng.random() < 0.7 else ["real", "-1", "5/2"]])
            else:
                self.params.append([f"y{j}", ["user", rng.choice(self.g.types)[0]]])
        self.vars = [[f"w{j}_{t}", ["user", t]] for j, t in enumerate(rng.choice(self.g.types)[0] for _ in range(n_vars))]
        self.scope = {"params": self.params, "vars": self.vars}

    # -- numeric sub-grammar with real parameters as leaves --------------------------------------------------------
    def boolean(self, depth=2, huge=0.0):
        e = self.g.boolean(depth, self.scope)
        return self._hugeify(e, huge) if huge else e

    def numeric(self, depth=2, int_only=False, huge=0.0):
        e = self.g.num(depth, self.scope, int_only)
        return self._hugeify(e, huge) if huge else e

    def _hugeify(self, e, p):
        r = self.rng
        if not isinstance(e, list):
            return e
        if e[0] == "i" and r.random() < p:
            return ["i", r.choice(HUGE)]
        if e[0] == "r" and r.random() < p:
            return ["r", str(r.choice(HUGE_FR))]
        if e[0] in ("b", "o", "p", "v"):
            return e
        if e[0] in ("exists", "forall"):
            return [e[0], e[1], self._hugeify(e[2], p)]
        if e[0] in ("f", "if"):
            return e[:2] + [self._hugeify(a, p) for a in e[2:]]
        return [e[0]] + [self._hugeify(a, p) for a in e[1:]]

    def const_div(self):
        """integer / rational constant divisions incl. exact and inexact quotients above 2**53"""
        r = self.rng
        d = r.choice([2, 3, 7, -2, 2**10, 10**6 + 3])
        q = r.choice(HUGE + [12, 7, -9])
        num = q * d if r.random() < 0.5 else q * d + r.choice([1, -1])
        return ["div", ["i", num], ["i", d]]

    def exists_eq2(self):
        """Exists a, b. conjunction containing TWO equalities on bound variables (a == t1, b == t2 or b == a) in random
        positions among other conjuncts that mention a and b"""
        r, g = self.rng, self.g
        ta, tb = r.choice(g.types)[0], r.choice(g.types)[0]
        va, vb = [f"za_{ta}", ["user", ta]], [f"zb_{tb}", ["user", tb]]
        sc = {"params": self.params, "vars": self.vars + [va, vb]}
        ea, eb = ["v", va[0], va[1]], ["v", vb[0], vb[1]]

        def rhs(t, allow_var=None):
            c = []
            for tt, _ in g.types:
                if tt in g.subtypes(t) or t in g.subtypes(tt):
                    x = g.obj_term(tt, {"params": self.params, "vars": self.vars}, allow_fluent=False)
                    if x is not None:
                        c.append(x)
            if allow_var is not None:
                c.append(allow_var)
            return r.choice(c) if c else None

        ra = rhs(ta)
        rb = rhs(tb, allow_var=ea if (ta in g.subtypes(tb) or tb in g.subtypes(ta)) else None)
        if ra is None or rb is None:
            return self.exists_eq()
        eqa = ["eq", ea, ra] if r.random() < 0.5 else ["eq", ra, ea]
        eqb = ["eq", eb, rb] if r.random() < 0.5 else ["eq", rb, eb]
        others = [g.boolean(1, sc) for _ in range(r.choice([1, 2, 2]))]
        conj = [eqa, eqb] + others
        r.shuffle(conj)
        return ["exists", [va, vb], ["and"] + conj]

    def exists_eq(self):
        """Exists v. (v == t) and phi(v), incl. t mentioning v through an object fluent and t of a supertype / subtype"""
        r, g = self.rng, self.g
        t = r.choice(g.types)[0]
        v = [f"z_{t}", ["user", t]]
        sc = {"params": self.params, "vars": self.vars + [v]}
        vexp = ["v", v[0], v[1]]
        # candidate right-hand sides: any object-typed term whose type is related to t
        cands = []
        for tt, _ in g.types:
            x = g.obj_term(tt, sc, allow_fluent=True)
            if x is not None and (tt in g.subtypes(t) or t in g.subtypes(tt)):
                cands.append(x)
        if not cands:
            return self.boolean(2)
        rhs = r.choice(cands)
        eq = ["eq", vexp, rhs] if r.random() < 0.5 else ["eq", rhs, vexp]
        phi = g.boolean(1, sc)
        body = ["and", eq, phi] if r.random() < 0.5 else ["and", phi, eq]
        return ["exists", [v], body]


def instantiate_world(world, env):
    """-> (problem, ctx) with ctx.params bound to Parameter objects for the pseudo parameters."""
    from unified_planning.model import Parameter
    from vk.recipe import instantiate_problem

    pb, ctx = instantiate_problem(world.rec, env)
    ctx.params = {n: Parameter(n, ctx.type(t), env) for n, t in world.params}
    return pb, ctx

"""PDDL text printer that is independent of the unified-planning PDDLWriter (owner: io-roundtrip, used by C21).

Input: a problem *recipe* (vk.recipe JSON, as produced by vk.gen.problem / vk.gen.iofrag) in the classical/numeric fragment.
Output: domain text, problem text, the name map recipe-name -> PDDL-name, and the set of surface forms used.  The printer
deliberately uses forms the UP writer never emits: a :constants section for arbitrary objects, untyped parameters, object lists
with several groups per type, nested / unary and/or, imply, comparisons in either operand order, = between objects,
(when c (and e1 e2)), (forall (?x) (when ...)), typed :functions, unary minus, upper-case spellings, comments, :action-costs.
Nothing of the library is used here.
"""
from fractions import Fraction

FORMS = [
    "constants-section",
    "untyped-parameter",
    "multi-group-object-list",
    "nested-and",
    "unary-and-or",
    "imply",
    "mirrored-comparison",
    "object-equality",
    "when-and",
    "forall-when",
    "typed-functions",
    "unary-minus",
    "upper-case",
    "comment",
    "action-costs",
    "problem-requirements",
    "decimal-spelling",
    "empty-and-precondition",
    "empty-precondition",
    "either-less-mixed-list",
    "not-in-init",
    "implicit-zero-cost",
]


class Printer:
    def __init__(self, rng, rec, untyped=False, p_upper=None, allow_empty_precondition=True):
        self.rng, self.rec, self.untyped = rng, rec, untyped
        self.allow_empty_precondition = allow_empty_precondition
        if p_upper is None:  # PDDL is case-insensitive; only some texts play with the spelling
            p_upper = 0.1 if rng.random() < 0.1 else 0.0
        self.forms = set()
        self.names = {}
        self.p_upper = p_upper
        self.req = {":strips"}
        if not untyped:
            self.req.add(":typing")
        self.types = {n: f for n, f in rec["types"]}
        self.flu = {f["name"]: f for f in rec["fluents"]}
        used = set()
        for kind, items in (("t", [n for n, _ in rec["types"]]), ("o", [o for o, _ in rec["objects"]]), ("f", [f["name"] for f in rec["fluents"]]), ("a", [a["name"] for a in rec["actions"]])):
            for i, n in enumerate(items):
                base = "".join(ch if ch.isalnum() else "-" for ch in n.lower()).strip("-") or kind
                if not base[0].isalpha():
                    base = kind + base
                deco = rng.choice(["", "", "-x", "_1", "-and-more"])
                cand = base + deco
                while cand in used or cand in ("object", "number", "and", "or", "not", "when", "forall", "exists", "imply", "at", "total-cost"):
                    cand += "z"
                used.add(cand)
                self.names[(kind, n)] = cand

    # ---- spelling ------------------------------------------------------------------------------------------------------
    def sp(self, word):
        """Occasionally spell a name / keyword in upper case (PDDL is case-insensitive)."""
        if self.rng.random() < self.p_upper:
            self.forms.add("upper-case")
            return word.upper()
        return word

    def nm(self, kind, n):
        return self.sp(self.names[(kind, n)])

    def num(self, v):
        fr = Fraction(v)
        if fr < 0:
            # negative literals are not readable by the third-party parser: print (- x)
            self.forms.add("unary-minus")
            return f"(- {self.num(-fr)})"
        if fr.denominator == 1:
            if self.rng.random() < 0.2:
                self.forms.add("decimal-spelling")
                return f"{fr.numerator}.0"
            return str(fr.numerator)
        s = str(float(fr))
        if Fraction(s) != fr:
            raise ValueError("inexact decimal")
        if self.rng.random() < 0.3:
            self.forms.add("decimal-spelling")
            s += "0"
        return s

    def typed(self, names, tname, var=False):
        if self.untyped:
            self.forms.add("untyped-parameter")
            return " ".join(names)
        return f"{' '.join(names)} - {self.nm('t', tname)}"

    # ---- expressions ---------------------------------------------------------------------------------------------------
    def var(self, n):
        return "?" + "".join(ch if ch.isalnum() else "_" for ch in n.lower())

    def term(self, e):
        k = e[0]
        if k == "o":
            return self.nm("o", e[1])
        if k == "p":
            return self.var(e[1])
        if k == "v":
            return self.var("v" + e[1])
        raise ValueError(f"term {e}")

    def fexp(self, e):
        args = "".join(" " + self.term(a) for a in e[2:])
        return f"({self.nm('f', e[1])}{args})"

    def nexp(self, e):
        k = e[0]
        if k in ("i", "r"):
            return self.num(e[1])
        if k == "f":
            self.req.add(":numeric-fluents")
            return self.fexp(e)
        if k == "plus":
            return f"(+ {' '.join(self.nexp(a) for a in e[1:])})"
        if k == "times":
            return f"(* {' '.join(self.nexp(a) for a in e[1:])})"
        if k == "div":
            return f"(/ {self.nexp(e[1])} {self.nexp(e[2])})"
        if k == "minus":
            # binary minus is not readable by the third-party parser: a - b is printed as (+ a (- b))
            self.forms.add("unary-minus")
            return f"(+ {self.nexp(e[1])} (- {self.nexp(e[2])}))"
        raise ValueError(f"numeric {e}")

    def is_num(self, e):
        k = e[0]
        if k in ("i", "r", "plus", "minus", "times", "div"):
            return True
        if k == "f":
            t = self.flu[e[1]]["type"]
            return t != "bool" and t[0] in ("int", "real")
        return False

    def bexp(self, e, depth=0):
        r = self.rng
        k = e[0]
        if k == "b":
            return "(and)" if e[1] else "(or)"
        if k == "f":
            return self.fexp(e)
        if k == "not":
            self.req.add(":negative-preconditions")
            return f"(not {self.bexp(e[1], depth + 1)})"
        if k in ("and", "or"):
            if k == "or":
                self.req.add(":disjunctive-preconditions")
            args = [self.bexp(a, depth + 1) for a in e[1:]]
            if len(args) >= 2 and r.random() < 0.3:
                self.forms.add("nested-and")
                args = [f"({k} {' '.join(args[:-1])})", args[-1]]
            if r.random() < 0.15:
                self.forms.add("unary-and-or")
                args = [f"({k} {a})" if r.random() < 0.5 else a for a in args]
            return f"({self.sp(k)} {' '.join(args)})"
        if k == "implies":
            self.forms.add("imply")
            self.req.add(":disjunctive-preconditions")
            return f"(imply {self.bexp(e[1], depth + 1)} {self.bexp(e[2], depth + 1)})"
        if k == "iff":
            self.req.add(":disjunctive-preconditions")
            a, b = self.bexp(e[1], depth + 1), self.bexp(e[2], depth + 1)
            return f"(and (imply {a} {b}) (imply {b} {a}))"
        if k in ("exists", "forall"):
            self.req.add(":existential-preconditions" if k == "exists" else ":universal-preconditions")
            vs = " ".join(self.typed([self.var("v" + n)], t[1], True) for n, t in e[1])
            return f"({self.sp(k)} ({vs}) {self.bexp(e[2], depth + 1)})"
        if k == "eq" and not self.is_num(e[1]):
            self.forms.add("object-equality")
            self.req.add(":equality")
            return f"(= {self.term(e[1])} {self.term(e[2])})"
        if k in ("eq", "le", "lt", "ge", "gt"):
            self.req.add(":numeric-fluents")
            op = {"eq": "=", "le": "<=", "lt": "<", "ge": ">=", "gt": ">"}[k]
            a, b = self.nexp(e[1]), self.nexp(e[2])
            if k != "eq" and r.random() < 0.5:
                self.forms.add("mirrored-comparison")
                op = {"<=": ">=", "<": ">", ">=": "<=", ">": "<"}[op]
                a, b = b, a
            return f"({op} {a} {b})"
        raise ValueError(f"boolean {e}")

    # ---- effects ---------------------------------------------------------------------------------------------------------
    def simple_effect(self, eff):
        f = self.flu[eff["fluent"][1]]
        fe = self.fexp(eff["fluent"])
        if f["type"] == "bool":
            v = eff["value"]
            if v[0] != "b":
                raise ValueError("non-constant boolean assignment")
            return fe if v[1] else f"(not {fe})"
        self.req.add(":numeric-fluents")
        op = {"assign": "assign", "inc": "increase", "dec": "decrease"}[eff["kind"]]
        return f"({op} {fe} {self.nexp(eff['value'])})"

    def effects(self, effs):
        """Groups effects that share forall variables and condition into (when c (and ...)) blocks now and then."""
        r = self.rng
        out = []
        i = 0
        effs = list(effs)
        while i < len(effs):
            e = effs[i]
            group = [e]
            if e.get("cond") is not None and i + 1 < len(effs) and effs[i + 1].get("cond") == e["cond"] and effs[i + 1].get("forall") == e.get("forall"):
                group.append(effs[i + 1])
            i += len(group)
            body = [self.simple_effect(x) for x in group]
            if len(body) > 1 or (e.get("cond") is not None and r.random() < 0.25):
                s = f"(and {' '.join(body)})"
                if e.get("cond") is not None:
                    self.forms.add("when-and")
            else:
                s = body[0]
            if e.get("cond") is not None:
                self.req.add(":conditional-effects")
                s = f"(when {self.bexp(e['cond'])} {s})"
            if e.get("forall"):
                self.req.add(":conditional-effects")
                if e.get("cond") is not None:
                    self.forms.add("forall-when")
                vs = " ".join(self.typed([self.var("v" + n)], t[1], True) for n, t in e["forall"])
                s = f"(forall ({vs}) {s})"
            out.append(s)
        return out

    # ---- sections -----------------------------------------------------------------------------------------------------------
    def object_groups(self, objs):
        """objs: [(name, type)] -> text with several groups per type in shuffled order."""
        r = self.rng
        objs = list(objs)
        r.shuffle(objs)
        groups = []
        for o, t in objs:
            if groups and groups[-1][0] == t and r.random() < 0.6:
                groups[-1][1].append(o)
            else:
                groups.append((t, [o]))
        if len({g[0] for g in groups}) < len(groups):
            self.forms.add("multi-group-object-list")
        return "\n   ".join(self.typed([self.nm("o", o) for o in os], t) for t, os in groups)

    def domain_problem(self):
        r, rec = self.rng, self.rec
        L = []

        def comment():
            if r.random() < 0.25:
                self.forms.add("comment")
                L.append(r.choice(["; a comment (with parens", ";; :action fake () not real", "; ?x - t"]))

        # split objects into constants / problem objects: objects mentioned by an action must be constants, any other
        # object may be one
        used = set()

        def scan(x):
            if isinstance(x, list):
                if len(x) == 2 and x[0] == "o" and isinstance(x[1], str):
                    used.add(x[1])
                for y in x:
                    scan(y)
            elif isinstance(x, dict):
                for y in x.values():
                    scan(y)

        scan(rec["actions"])
        m0 = rec.get("metric")
        if m0 and m0["kind"] == "costs":
            scan(list(m0["costs"].values()))
            scan(m0.get("default"))
        consts, pobjs = [], []
        for o, t in rec["objects"]:
            (consts if o in used or r.random() < 0.3 else pobjs).append((o, t[1]))
        if consts:
            self.forms.add("constants-section")
        # actions first (to know the requirements)
        acts = []
        costs = None
        m = rec.get("metric")
        if m and m["kind"] in ("costs", "length"):
            costs = m
            self.forms.add("action-costs")
            self.req.add(":action-costs")
        for a in rec["actions"]:
            params = []
            for n, t in a["params"]:
                params.append(self.typed([self.var(n)], t[1], True))
            pre = [self.bexp(c) for c in a["pre"]]
            if not pre:
                x = r.random()
                if x < 0.25 and self.allow_empty_precondition:
                    self.forms.add("empty-precondition")
                    pre_s = "()"
                else:
                    self.forms.add("empty-and-precondition")
                    pre_s = "(and)" if r.random() < 0.5 else "(and )"
            elif len(pre) == 1 and r.random() < 0.5:
                pre_s = pre[0]
            else:
                pre_s = f"(and {' '.join(pre)})"
            effs = self.effects(a["effects"])
            if costs is not None:
                c = None
                if costs["kind"] == "length":
                    c = "1"
                elif a["name"] in costs["costs"]:
                    c = self.nexp(costs["costs"][a["name"]])
                elif costs.get("default") is not None:
                    c = self.nexp(costs["default"])
                if c is not None and c.strip() in ("0", "0.0", "0.00") and r.random() < 0.6:
                    # an action without cost effect costs 0: both readers must fall back to the same default
                    self.forms.add("implicit-zero-cost")
                    c = None
                if c is not None:
                    effs.append(f"(increase (total-cost) {c})")
            eff_s = effs[0] if len(effs) == 1 and r.random() < 0.4 else f"(and {' '.join(effs)})"
            acts.append(f" (:action {self.nm('a', a['name'])}\n  :parameters ({' '.join(params)})\n  :precondition {pre_s}\n  :effect {eff_s})")
        goal = [self.bexp(g) for g in rec["goals"]]
        metric = None
        if costs is not None:
            metric = "(:metric minimize (total-cost))"
        elif m and m["kind"] in ("minfinal", "maxfinal"):
            metric = f"(:metric {'minimize' if m['kind'] == 'minfinal' else 'maximize'} {self.nexp(m['expr'])})"
        preds, funcs = [], []
        for f in rec["fluents"]:
            sig = " ".join(self.typed([self.var(n)], t[1], True) for n, t in f["sig"])
            s = f"({self.nm('f', f['name'])}{' ' if sig else ''}{sig})"
            if f["type"] == "bool":
                preds.append(s)
            else:
                self.req.add(":numeric-fluents")
                funcs.append(s)
        if costs is not None:
            funcs.append("(total-cost)")
        reqs = sorted(self.req)
        r.shuffle(reqs)
        L.append(f"({self.sp('define')} (domain {self.nm_dom()})")
        comment()
        L.append(f" (:requirements {' '.join(reqs)})")
        if not self.untyped:
            tl = []
            for n, father in rec["types"]:
                tl.append(f"{self.nm('t', n)} - {self.nm('t', father) if father else 'object'}" if (father or r.random() < 0.5) else self.nm("t", n))
            # untyped (root) declarations must come last in a typed list
            tl.sort(key=lambda s: " - " not in s)
            L.append(f" (:types {' '.join(tl)})")
        comment()
        if consts:
            L.append(f" (:constants {self.object_groups(consts)})")
        if preds:
            L.append(" (:predicates " + " ".join(preds) + ")")
        if funcs:
            if r.random() < 0.4:
                self.forms.add("typed-functions")
                L.append(" (:functions " + " ".join(funcs) + " - number)")
            else:
                L.append(" (:functions " + " ".join(funcs) + ")")
        for a in acts:
            comment()
            L.append(a)
        L.append(")")
        dom = "\n".join(L)
        P = [f"(define (problem {self.nm_dom()}-p) (:domain {self.nm_dom()})"]
        if len(self.req) > 2 or r.random() < 0.5:  # the third-party parser checks the problem's own requirement list
            self.forms.add("problem-requirements")
            P.append(f" (:requirements {' '.join(reqs)})")
        P.append(f" (:objects {self.object_groups(pobjs)})" if pobjs or r.random() < 0.5 else "")
        init = []
        inits = {str(fe): v for fe, v in rec.get("init", [])}
        for f in rec["fluents"]:
            for fe in self.ground(f):
                v = inits.get(str(fe), f.get("default"))
                if v is None:
                    continue
                if f["type"] == "bool":
                    if v[1]:
                        init.append(self.fexp(fe))
                    elif r.random() < 0.1:
                        self.forms.add("not-in-init")
                        init.append(f"(not {self.fexp(fe)})")
                else:
                    if Fraction(v[1]) < 0:
                        raise ValueError("negative initial value")
                    init.append(f"(= {self.fexp(fe)} {self.num(v[1])})")
        if costs is not None:
            init.append("(= (total-cost) 0)")
        r.shuffle(init)
        P.append(f" (:init {' '.join(init)})")
        P.append(f" (:goal {goal[0] if len(goal) == 1 and r.random() < 0.5 else '(and ' + ' '.join(goal) + ')'})")
        if metric:
            P.append(" " + metric)
        P.append(")")
        return dom, "\n".join(x for x in P if x)

    def nm_dom(self):
        return "dom-1"

    def ground(self, f):
        import itertools

        doms = []
        for _, pt in f["sig"]:
            doms.append([o for o, t in self.rec["objects"] if self.is_sub(t[1], pt[1])])
        for combo in itertools.product(*doms):
            yield ["f", f["name"]] + [["o", o] for o in combo]

    def is_sub(self, t, sup):
        while t is not None:
            if t == sup:
                return True
            t = self.types.get(t)
        return False


def print_pddl(rng, rec, untyped=False, allow_empty_precondition=True):
    """-> (domain_text, problem_text, names {(kind, recipe name): pddl name}, forms used). Raises ValueError if the recipe
    is outside what this printer covers (object fluents, bounded types are ignored by PDDL, ...)."""
    p = Printer(rng, rec, untyped, allow_empty_precondition=allow_empty_precondition)
    d, pr = p.domain_problem()
    return d, pr, dict(p.names), set(p.forms)

"""PDDL text printer that is independent of the unified-planning PDDLWriter (owner: io-roundtrip, used by C21).

Input: a problem *recipe* (vk.recipe JSON, as produced by vk.gen.problem / vk.gen.iofrag) in the classical/numeric fragment.
Output: domain text, problem text, the name map recipe-name -> PDDL-name, and the set of surface forms used.  The printer
deliberately uses forms the UP writer never emits: a :constants section for arbitrary objects, untyped parameters, object lists
with several groups per type, nested / unary and/or, imply, comparisons in either operand order, = between objects,
(when c (and e1 e2)), (forall (?x) (when ...)), typed :functions, unary minus, upper-case spellings, comments, :action-costs,
quantifier variables named from a small pool (?v, ?x, ...) so that several quantified conditions / forall effects of one domain
reuse a variable name with different types (PDDL variables are scoped by their binder).
plant_quantified_conditions() widens a recipe with quantified conditions over every type of a hierarchy with sibling subtypes.
Nothing of the library is used here.
"""
import copy
from fractions import Fraction

FORMS = [
    "constants-section",
    "untyped-parameter",
    "multi-group-object-list",
    "nested-and",
    "unary-and-or",
    "imply",
    "mirrored-comparison",
    "object-equality",
    "when-and",
    "forall-when",
    "typed-functions",
    "unary-minus",
    "upper-case",
    "comment",
    "action-costs",
    "problem-requirements",
    "decimal-spelling",
    "empty-and-precondition",
    "empty-precondition",
    "either-less-mixed-list",
    "not-in-init",
    "implicit-zero-cost",
    "shared-variable-name:conditions",
    "shared-variable-name:effects",
    "short-variable-names",
]

# quantifier variables are local to their binder: a text may use the same few names for all of them
VAR_POOL = ["?v", "?x", "?y", "?z", "?w", "?u", "?t", "?s"]


class Printer:
    def __init__(self, rng, rec, untyped=False, p_upper=None, allow_empty_precondition=True, short_vars=None):
        self.rng, self.rec, self.untyped = rng, rec, untyped
        self.allow_empty_precondition = allow_empty_precondition
        # naming policy of quantifier variables: derived from the recipe's variable name, or taken from VAR_POOL by nesting
        # depth (all outermost quantifiers of the domain are then called ?v, or ?x, ..., whatever their type)
        self.short_vars = (rng.random() < 0.5) if short_vars is None else short_vars
        self.pool = VAR_POOL[rng.randrange(3) :] if self.short_vars else []
        # (not (p a)) in :init is refused by the AI-planning reader as unsupported (documented rejection): a per-text choice, so
        # that the share of texts outside the common fragment does not grow with the number of false ground atoms
        self.p_not_init = 0.3 if rng.random() < 0.12 else 0.0
        self.scope = []  # [(recipe variable name, printed name)] innermost last
        self.cur_params = set()  # printed parameter names of the action being printed
        self.qtypes = {"conditions": {}, "effects": {}}  # printed variable name -> set of type names it was bound with
        if p_upper is None:  # PDDL is case-insensitive; only some texts play with the spelling
            p_upper = 0.1 if rng.random() < 0.1 else 0.0
        self.forms = set()
        self.names = {}
        self.p_upper = p_upper
        self.req = {":strips"}
        if not untyped:
            self.req.add(":typing")
        self.types = {n: f for n, f in rec["types"]}
        self.flu = {f["name"]: f for f in rec["fluents"]}
        used = set()
        for kind, items in (("t", [n for n, _ in rec["types"]]), ("o", [o for o, _ in rec["objects"]]), ("f", [f["name"] for f in rec["fluents"]]), ("a", [a["name"] for a in rec["actions"]])):
            for i, n in enumerate(items):
                base = "".join(ch if ch.isalnum() else "-" for ch in n.lower()).strip("-") or kind
                if not base[0].isalpha():
                    base = kind + base
                deco = rng.choice(["", "", "-x", "_1", "-and-more"])
                cand = base + deco
                while cand in used or cand in ("object", "number", "and", "or", "not", "when", "forall", "exists", "imply", "at", "total-cost"):
                    cand += "z"
                used.add(cand)
                self.names[(kind, n)] = cand

    # ---- spelling ------------------------------------------------------------------------------------------------------
    def sp(self, word):
        """Occasionally spell a name / keyword in upper case (PDDL is case-insensitive)."""
        if self.rng.random() < self.p_upper:
            self.forms.add("upper-case")
            return word.upper()
        return word

    def nm(self, kind, n):
        return self.sp(self.names[(kind, n)])

    def num(self, v):
        fr = Fraction(v)
        if fr < 0:
            # negative literals are not readable by the third-party parser: print (- x)
            self.forms.add("unary-minus")
            return f"(- {self.num(-fr)})"
        if fr.denominator == 1:
            if self.rng.random() < 0.2:
                self.forms.add("decimal-spelling")
                return f"{fr.numerator}.0"
            return str(fr.numerator)
        s = str(float(fr))
        if Fraction(s) != fr:
            raise ValueError("inexact decimal")
        if self.rng.random() < 0.3:
            self.forms.add("decimal-spelling")
            s += "0"
        return s

    def typed(self, names, tname, var=False):
        if self.untyped:
            self.forms.add("untyped-parameter")
            return " ".join(names)
        return f"{' '.join(names)} - {self.nm('t', tname)}"

    # ---- expressions ---------------------------------------------------------------------------------------------------
    def var(self, n):
        return "?" + "".join(ch if ch.isalnum() else "_" for ch in n.lower())

    def term(self, e):
        k = e[0]
        if k == "o":
            return self.nm("o", e[1])
        if k == "p":
            return self.var(e[1])
        if k == "v":
            for n, printed in reversed(self.scope):
                if n == e[1]:
                    return printed
            return self.var("v" + e[1])
        raise ValueError(f"term {e}")

    def bind(self, n, tname, where):
        """Enter the scope of a quantifier variable; returns its printed name."""
        if self.short_vars:
            taken = {p for _, p in self.scope} | self.cur_params
            printed = next((x for x in self.pool if x not in taken), None) or self.var("v" + n)
            self.forms.add("short-variable-names")
        else:
            printed = self.var("v" + n)
        self.scope.append((n, printed))
        self.qtypes[where].setdefault(printed, set()).add(None if self.untyped else tname)
        return printed

    def unbind(self, k):
        del self.scope[len(self.scope) - k :]

    def fexp(self, e):
        args = "".join(" " + self.term(a) for a in e[2:])
        return f"({self.nm('f', e[1])}{args})"

    def nexp(self, e):
        k = e[0]
        if k in ("i", "r"):
            return self.num(e[1])
        if k == "f":
            self.req.add(":numeric-fluents")
            return self.fexp(e)
        if k == "plus":
            return f"(+ {' '.join(self.nexp(a) for a in e[1:])})"
        if k == "times":
            return f"(* {' '.join(self.nexp(a) for a in e[1:])})"
        if k == "div":
            return f"(/ {self.nexp(e[1])} {self.nexp(e[2])})"
        if k == "minus":
            # binary minus is not readable by the third-party parser: a - b is printed as (+ a (- b))
            self.forms.add("unary-minus")
            return f"(+ {self.nexp(e[1])} (- {self.nexp(e[2])}))"
        raise ValueError(f"numeric {e}")

    def is_num(self, e):
        k = e[0]
        if k in ("i", "r", "plus", "minus", "times", "div"):
            return True
        if k == "f":
            t = self.flu[e[1]]["type"]
            return t != "bool" and t[0] in ("int", "real")
        return False

    def bexp(self, e, depth=0):
        r = self.rng
        k = e[0]
        if k == "b":
            return "(and)" if e[1] else "(or)"
        if k == "f":
            return self.fexp(e)
        if k == "not":
            self.req.add(":negative-preconditions")
            return f"(not {self.bexp(e[1], depth + 1)})"
        if k in ("and", "or"):
            if k == "or":
                self.req.add(":disjunctive-preconditions")
            args = [self.bexp(a, depth + 1) for a in e[1:]]
            if len(args) >= 2 and r.random() < 0.3:
                self.forms.add("nested-and")
                args = [f"({k} {' '.join(args[:-1])})", args[-1]]
            if r.random() < 0.15:
                self.forms.add("unary-and-or")
                args = [f"({k} {a})" if r.random() < 0.5 else a for a in args]
            return f"({self.sp(k)} {' '.join(args)})"
        if k == "implies":
            self.forms.add("imply")
            self.req.add(":disjunctive-preconditions")
            return f"(imply {self.bexp(e[1], depth + 1)} {self.bexp(e[2], depth + 1)})"
        if k == "iff":
            self.req.add(":disjunctive-preconditions")
            a, b = self.bexp(e[1], depth + 1), self.bexp(e[2], depth + 1)
            return f"(and (imply {a} {b}) (imply {b} {a}))"
        if k in ("exists", "forall"):
            self.req.add(":existential-preconditions" if k == "exists" else ":universal-preconditions")
            vs = " ".join(self.typed([self.bind(n, t[1], "conditions")], t[1], True) for n, t in e[1])
            body = self.bexp(e[2], depth + 1)
            self.unbind(len(e[1]))
            return f"({self.sp(k)} ({vs}) {body})"
        if k == "eq" and not self.is_num(e[1]):
            self.forms.add("object-equality")
            self.req.add(":equality")
            return f"(= {self.term(e[1])} {self.term(e[2])})"
        if k in ("eq", "le", "lt", "ge", "gt"):
            self.req.add(":numeric-fluents")
            op = {"eq": "=", "le": "<=", "lt": "<", "ge": ">=", "gt": ">"}[k]
            a, b = self.nexp(e[1]), self.nexp(e[2])
            if k != "eq" and r.random() < 0.5:
                self.forms.add("mirrored-comparison")
                op = {"<=": ">=", "<": ">", ">=": "<=", ">": "<"}[op]
                a, b = b, a
            return f"({op} {a} {b})"
        raise ValueError(f"boolean {e}")

    # ---- effects ---------------------------------------------------------------------------------------------------------
    def simple_effect(self, eff):
        f = self.flu[eff["fluent"][1]]
        fe = self.fexp(eff["fluent"])
        if f["type"] == "bool":
            v = eff["value"]
            if v[0] != "b":
                raise ValueError("non-constant boolean assignment")
            return fe if v[1] else f"(not {fe})"
        self.req.add(":numeric-fluents")
        op = {"assign": "assign", "inc": "increase", "dec": "decrease"}[eff["kind"]]
        return f"({op} {fe} {self.nexp(eff['value'])})"

    def effects(self, effs):
        """Groups effects that share forall variables and condition into (when c (and ...)) blocks now and then."""
        r = self.rng
        out = []
        i = 0
        effs = list(effs)
        while i < len(effs):
            e = effs[i]
            group = [e]
            if e.get("cond") is not None and i + 1 < len(effs) and effs[i + 1].get("cond") == e["cond"] and effs[i + 1].get("forall") == e.get("forall"):
                group.append(effs[i + 1])
            i += len(group)
            vs = " ".join(self.typed([self.bind(n, t[1], "effects")], t[1], True) for n, t in e.get("forall") or [])
            body = [self.simple_effect(x) for x in group]
            if len(body) > 1 or (e.get("cond") is not None and r.random() < 0.25):
                s = f"(and {' '.join(body)})"
                if e.get("cond") is not None:
                    self.forms.add("when-and")
            else:
                s = body[0]
            if e.get("cond") is not None:
                self.req.add(":conditional-effects")
                s = f"(when {self.bexp(e['cond'])} {s})"
            if e.get("forall"):
                self.req.add(":conditional-effects")
                if e.get("cond") is not None:
                    self.forms.add("forall-when")
                s = f"(forall ({vs}) {s})"
                self.unbind(len(e["forall"]))
            out.append(s)
        return out

    # ---- sections -----------------------------------------------------------------------------------------------------------
    def object_groups(self, objs):
        """objs: [(name, type)] -> text with several groups per type in shuffled order."""
        r = self.rng
        objs = list(objs)
        r.shuffle(objs)
        groups = []
        for o, t in objs:
            if groups and groups[-1][0] == t and r.random() < 0.6:
                groups[-1][1].append(o)
            else:
                groups.append((t, [o]))
        if len({g[0] for g in groups}) < len(groups):
            self.forms.add("multi-group-object-list")
        return "\n   ".join(self.typed([self.nm("o", o) for o in os], t) for t, os in groups)

    def domain_problem(self):
        r, rec = self.rng, self.rec
        L = []

        def comment():
            if r.random() < 0.25:
                self.forms.add("comment")
                L.append(r.choice(["; a comment (with parens", ";; :action fake () not real", "; ?x - t"]))

        # split objects into constants / problem objects: objects mentioned by an action must be constants, any other
        # object may be one
        used = set()

        def scan(x):
            if isinstance(x, list):
                if len(x) == 2 and x[0] == "o" and isinstance(x[1], str):
                    used.add(x[1])
                for y in x:
                    scan(y)
            elif isinstance(x, dict):
                for y in x.values():
                    scan(y)

        scan(rec["actions"])
        m0 = rec.get("metric")
        if m0 and m0["kind"] == "costs":
            scan(list(m0["costs"].values()))
            scan(m0.get("default"))
        consts, pobjs = [], []
        for o, t in rec["objects"]:
            (consts if o in used or r.random() < 0.3 else pobjs).append((o, t[1]))
        if consts:
            self.forms.add("constants-section")
        # actions first (to know the requirements)
        acts = []
        costs = None
        m = rec.get("metric")
        if m and m["kind"] in ("costs", "length"):
            costs = m
            self.forms.add("action-costs")
            self.req.add(":action-costs")
        for a in rec["actions"]:
            params = []
            self.cur_params = {self.var(n) for n, t in a["params"]}
            for n, t in a["params"]:
                params.append(self.typed([self.var(n)], t[1], True))
            pre = [self.bexp(c) for c in a["pre"]]
            if not pre:
                x = r.random()
                if x < 0.25 and self.allow_empty_precondition:
                    self.forms.add("empty-precondition")
                    pre_s = "()"
                else:
                    self.forms.add("empty-and-precondition")
                    pre_s = "(and)" if r.random() < 0.5 else "(and )"
            elif len(pre) == 1 and r.random() < 0.5:
                pre_s = pre[0]
            else:
                pre_s = f"(and {' '.join(pre)})"
            effs = self.effects(a["effects"])
            if costs is not None:
                c = None
                if costs["kind"] == "length":
                    c = "1"
                elif a["name"] in costs["costs"]:
                    c = self.nexp(costs["costs"][a["name"]])
                elif costs.get("default") is not None:
                    c = self.nexp(costs["default"])
                if c is not None and c.strip() in ("0", "0.0", "0.00") and r.random() < 0.6:
                    # an action without cost effect costs 0: both readers must fall back to the same default
                    self.forms.add("implicit-zero-cost")
                    c = None
                if c is not None:
                    effs.append(f"(increase (total-cost) {c})")
            eff_s = effs[0] if len(effs) == 1 and r.random() < 0.4 else f"(and {' '.join(effs)})"
            self.cur_params = set()
            acts.append(f" (:action {self.nm('a', a['name'])}\n  :parameters ({' '.join(params)})\n  :precondition {pre_s}\n  :effect {eff_s})")
        # the same printed variable name bound with different types by two binders of the domain
        qc, qe = self.qtypes["conditions"], self.qtypes["effects"]
        if any(len(ts) > 1 for ts in qc.values()):
            self.forms.add("shared-variable-name:conditions")
        if any(len(ts | qc.get(n, set())) > 1 for n, ts in qe.items()):
            self.forms.add("shared-variable-name:effects")
        goal = [self.bexp(g) for g in rec["goals"]]
        metric = None
        if costs is not None:
            metric = "(:metric minimize (total-cost))"
        elif m and m["kind"] in ("minfinal", "maxfinal"):
            metric = f"(:metric {'minimize' if m['kind'] == 'minfinal' else 'maximize'} {self.nexp(m['expr'])})"
        preds, funcs = [], []
        for f in rec["fluents"]:
            sig = " ".join(self.typed([self.var(n)], t[1], True) for n, t in f["sig"])
            s = f"({self.nm('f', f['name'])}{' ' if sig else ''}{sig})"
            if f["type"] == "bool":
                preds.append(s)
            else:
                self.req.add(":numeric-fluents")
                funcs.append(s)
        if costs is not None:
            funcs.append("(total-cost)")
        reqs = sorted(self.req)
        r.shuffle(reqs)
        L.append(f"({self.sp('define')} (domain {self.nm_dom()})")
        comment()
        L.append(f" (:requirements {' '.join(reqs)})")
        if not self.untyped:
            tl = []
            for n, father in rec["types"]:
                tl.append(f"{self.nm('t', n)} - {self.nm('t', father) if father else 'object'}" if (father or r.random() < 0.5) else self.nm("t", n))
            # untyped (root) declarations must come last in a typed list
            tl.sort(key=lambda s: " - " not in s)
            L.append(f" (:types {' '.join(tl)})")
        comment()
        if consts:
            L.append(f" (:constants {self.object_groups(consts)})")
        if preds:
            L.append(" (:predicates " + " ".join(preds) + ")")
        if funcs:
            if r.random() < 0.4:
                self.forms.add("typed-functions")
                L.append(" (:functions " + " ".join(funcs) + " - number)")
            else:
                L.append(" (:functions " + " ".join(funcs) + ")")
        for a in acts:
            comment()
            L.append(a)
        L.append(")")
        dom = "\n".join(L)
        P = [f"(define (problem {self.nm_dom()}-p) (:domain {self.nm_dom()})"]
        if len(self.req) > 2 or r.random() < 0.5:  # the third-party parser checks the problem's own requirement list
            self.forms.add("problem-requirements")
            P.append(f" (:requirements {' '.join(reqs)})")
        P.append(f" (:objects {self.object_groups(pobjs)})" if pobjs or r.random() < 0.5 else "")
        init = []
        inits = {str(fe): v for fe, v in rec.get("init", [])}
        for f in rec["fluents"]:
            for fe in self.ground(f):
                v = inits.get(str(fe), f.get("default"))
                if v is None:
                    continue
                if f["type"] == "bool":
                    if v[1]:
                        init.append(self.fexp(fe))
                    elif r.random() < self.p_not_init:
                        self.forms.add("not-in-init")
                        init.append(f"(not {self.fexp(fe)})")
                else:
                    if Fraction(v[1]) < 0:
                        raise ValueError("negative initial value")
                    init.append(f"(= {self.fexp(fe)} {self.num(v[1])})")
        if costs is not None:
            init.append("(= (total-cost) 0)")
        r.shuffle(init)
        P.append(f" (:init {' '.join(init)})")
        P.append(f" (:goal {goal[0] if len(goal) == 1 and r.random() < 0.5 else '(and ' + ' '.join(goal) + ')'})")
        if metric:
            P.append(" " + metric)
        P.append(")")
        return dom, "\n".join(x for x in P if x)

    def nm_dom(self):
        return "dom-1"

    def ground(self, f):
        import itertools

        doms = []
        for _, pt in f["sig"]:
            doms.append([o for o, t in self.rec["objects"] if self.is_sub(t[1], pt[1])])
        for combo in itertools.product(*doms):
            yield ["f", f["name"]] + [["o", o] for o in combo]

    def is_sub(self, t, sup):
        while t is not None:
            if t == sup:
                return True
            t = self.types.get(t)
        return False


# ---- recipe-level widening: quantified conditions over the types of a hierarchy -------------------------------------------------
def plant_quantified_conditions(rng, rec):
    """Adds to a recipe several quantified conditions / effects over *different* types of one type hierarchy - a type, sibling
    subtypes of it (created if the recipe has fewer than two) - all reading one unary predicate declared over the top type, so
    that each of them is well-typed for every type of the hierarchy: preconditions, effect conditions (when), forall effects
    (plain and conditional) and, rarely, a goal. All planted binders use the same recipe variable name, i.e. the same PDDL
    variable name under either naming policy of the printer. The initial state makes the predicate's extension differ between
    the types (all / some / none of a type's objects), so that quantifying over the wrong type changes truth values.
    Returns (recipe, number of planted binders)."""
    r = copy.deepcopy(rec)
    fathers = {n: f for n, f in r["types"]}
    if not fathers or not r["actions"]:
        return rec, 0
    used = {n for n, _ in r["types"]} | {o for o, _ in r["objects"]} | {f["name"] for f in r["fluents"]} | {a["name"] for a in r["actions"]}

    def fresh(base):
        k = 0
        while f"{base}{k}" in used:
            k += 1
        used.add(f"{base}{k}")
        return f"{base}{k}"

    def is_sub(t, sup):
        while t is not None:
            if t == sup:
                return True
            t = fathers.get(t)
        return False

    # the top type: prefer one that already has subtypes / a unary Boolean predicate over it
    unary = [f for f in r["fluents"] if f["type"] == "bool" and len(f["sig"]) == 1 and f["sig"][0][1][0] == "user"]
    tops = [f["sig"][0][1][1] for f in unary] if unary and rng.random() < 0.6 else [n for n, _ in r["types"]]
    top = rng.choice(tops)
    kids = [n for n, f in r["types"] if f == top]
    while len(kids) < 2:
        t = fresh("S")
        r["types"].append([t, top])
        fathers[t] = top
        kids.append(t)
    for t in kids:  # every sibling has an object of its own (possibly besides objects of its subtypes)
        if not any(ot[1] == t for _, ot in r["objects"]) or rng.random() < 0.25:
            r["objects"].append([fresh("so"), ["user", t]])
    if not any(ot[1] == top for _, ot in r["objects"]) and rng.random() < 0.5:
        r["objects"].append([fresh("so"), ["user", top]])
    domain_types = [top] + kids
    preds = [f for f in unary if f["sig"][0][1][1] == top]
    if preds and rng.random() < 0.5:
        pred = rng.choice(preds)["name"]
    else:
        pred = fresh("qp")
        r["fluents"].append({"name": pred, "type": "bool", "sig": [["x0", ["user", top]]], "default": ["b", False]})
        # something changes the predicate, so that truth values of the planted conditions vary over the reached states
        r["actions"].append(
            {
                "name": fresh("qa"),
                "params": [["y0", ["user", top]]],
                "pre": [["not", ["f", pred, ["p", "y0"]]]],
                "effects": [{"kind": "assign", "fluent": ["f", pred, ["p", "y0"]], "value": ["b", True], "cond": None, "forall": []}],
            }
        )
    # initial extension of the predicate: one sibling has it on all of its objects, another one lacks it on some object
    objs_of = lambda t: [o for o, ot in r["objects"] if is_sub(ot[1], t)]  # noqa: E731
    val = {o: rng.random() < 0.5 for o in objs_of(top)}
    a, b = rng.sample(kids, 2)
    if rng.random() < 0.8:
        for o in objs_of(a):
            val[o] = True
        val[rng.choice(objs_of(b))] = False
    r["init"] = [[fe, v] for fe, v in r["init"] if fe[1] != pred] + [[["f", pred, ["o", o]], ["b", v]] for o, v in sorted(val.items())]
    vn = "x"

    def quantified(t):
        v = ["v", vn, ["user", t]]
        atom = ["f", pred, v]
        x = rng.random()
        body = atom if x < 0.55 else ["not", atom]
        others = [f for f in unary if f["name"] != pred and is_sub(t, f["sig"][0][1][1])]
        if others and rng.random() < 0.3:
            body = [rng.choice(["and", "or"]), body, ["f", rng.choice(others)["name"], v]]
        return [rng.choice(["forall", "exists"]), [[vn, ["user", t]]], body]

    def marker():
        m = fresh("qm")
        r["fluents"].append({"name": m, "type": "bool", "sig": [], "default": ["b", False]})
        return ["f", m]

    n_sites = rng.choice([2, 3, 3, 4, 5])
    # the binders' types: at least two different ones, siblings first
    types = [a, b] + [rng.choice(domain_types) for _ in range(n_sites - 2)]
    rng.shuffle(types)
    qe = None
    planted = 0
    for t in types:
        act = rng.choice(r["actions"])
        x = rng.random()
        if x < 0.45:
            act["pre"].append(quantified(t))
        elif x < 0.7:
            act["effects"].append({"kind": "assign", "fluent": marker(), "value": ["b", True], "cond": quantified(t), "forall": []})
        elif x < 0.93:
            if qe is None:
                qe = fresh("qe")
                r["fluents"].append({"name": qe, "type": "bool", "sig": [["x0", ["user", top]]], "default": ["b", False]})
            written = {e["fluent"][1] for e in act["effects"]}
            if qe in written:
                act["pre"].append(quantified(t))
            else:
                v = ["v", vn, ["user", t]]
                cond = None if rng.random() < 0.5 else (["f", pred, v] if rng.random() < 0.5 else ["not", ["f", pred, v]])
                act["effects"].append({"kind": "assign", "fluent": ["f", qe, v], "value": ["b", True], "cond": cond, "forall": [[vn, ["user", t]]]})
        else:
            r["goals"].append(quantified(t))
        planted += 1
    return r, planted


def print_pddl(rng, rec, untyped=False, allow_empty_precondition=True):
    """-> (domain_text, problem_text, names {(kind, recipe name): pddl name}, forms used). Raises ValueError if the recipe
    is outside what this printer covers (object fluents, bounded types are ignored by PDDL, ...)."""
    p = Printer(rng, rec, untyped, allow_empty_precondition=allow_empty_precondition)
    d, pr = p.domain_problem()
    return d, pr, dict(p.names), set(p.forms)

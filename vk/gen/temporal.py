"""Seeded generator of small *temporal* problem recipes and time-triggered plans (DESIGN §4 `gen/temporal.py`).
Owner: agent "temporal" (C05, C26, C28; reusable by C18/C19/C29).

    gen_temporal(rng, profile=None) -> (recipe, features)      recipe in the vk/recipe.py format (profile keys: TEMPORAL_PROFILE
                                                               + the C01-grammar keys of vk.gen.problem.DEFAULT_PROFILE)
    gen_tt_plan(rng, recipe, n_steps=None, accept=None, ...) -> [[start "p/q", action_name, [args], duration "p/q"|None], ...]
                                                               (accept(partial_plan) -> bool optionally guides the construction)
    plan_steps(problem, plan_recipe) -> timed_steps for vk.ref.ttsem.validate / ttsem.library_plan
    instantiate(recipe, env) -> (problem, ctx)                 vk.recipe.instantiate_problem + problem-level timed effects
    gen_problem_fixed(rng, profile) -> (recipe, features)      vk.gen.problem.gen_problem with a repaired objs_of (harmless once
                                                               the base class is repaired)

The classical skeleton (types, objects, fluents, conditions, effects, goals, invariants) comes from the C01 grammar
(`vk.gen.problem.G`); every instantaneous action is then turned into a durative one with probability `durative`:
its preconditions are spread over condition intervals (start / end / over-all in the four open-closed forms /
intermediate start+d, end-d), its effects over timings (start / end / start+d / end-d), and it gets a duration
(fixed / closed / open / left-open / right-open; constant, static-fluent-, fluent- or parameter-dependent bounds).
All times live on the grid of multiples of 1/2, so that coinciding happenings and durations exactly on a bound are frequent.
"""
import copy
from fractions import Fraction

from vk.gen.problem import G

H = Fraction(1, 2)

TEMPORAL_PROFILE = dict(
    durative=0.75,
    timed_effects=0.3,
    timed_goals=0.3,
    timed_goal_at_gend=0.04,
    epsilon=0.3,
    keep_goals=0.3,
    intermediate=0.3,  # probability that a condition / effect of a durative action gets an intermediate timing
    fluent_duration=0.3,
    interval_duration=0.55,
    t2s=False,  # restrict to the timed-to-sequential compiler's kind (no intermediate/timed/invariants)
    dur_params=0.0,
    # widenings (all off by default: a profile that does not set them gets exactly the recipes it got before)
    narrow_duration=0.0,  # probability that a duration interval is narrow relative to the time step (problem epsilon, 1/100 when unset)
    locks=0.0,  # probability of a temporarily-changed-fluent ("resource lock") pattern in a durative action + a reader (TG.widen_locks)
    amount_fluents=0.0,  # probability of an increase/decrease by a non-static numeric fluent + a writer of that fluent (FixedG.widen_amounts)
    # C01-grammar overrides
    max_depth=1,
    max_actions=3,
    max_fluents=4,
    undefined_init=0.06,
    invariants=0.1,
    interpreted_functions=0.0,
    traj=0.0,
    metric=None,
)


def _num(x):
    x = Fraction(x)
    return ["i", int(x)] if x.denominator == 1 else ["r", str(x)]


class FixedG(G):
    """vk.gen.problem.G with objs_of repaired (the base class compares the object's type recipe ["user", T] with type *names*
    and therefore never finds an object: no object constants, no initial values for parametrised / object-valued fluents)."""

    def objs_of(self, t):
        st = self.subtypes(t)
        return [o for o, ot in self.objects if (ot[1] if isinstance(ot, list) else ot) in st]


    # ---- widening: increase / decrease by an amount that another action changes --------------------------
    def widen_amounts(self, rec):
        """Adds (to the *instantaneous* recipe, i.e. before durativisation) an action that increases / decreases a numeric
        fluent F by an amount that reads another numeric fluent A (`A`, `A + c`, `c * A`, `A - B`), and - unless the grammar's own
        actions already write A - an action that writes A (assign / increase / decrease), so that A is not static and the order
        of the two actions decides the accumulated value.  Fluents are taken from the grammar (parametrised ones included); a
        0-ary numeric fluent is added when the problem has fewer than two numeric fluents of compatible types."""
        r = self.rng
        nf = [f for f in self.fluents if f["type"][0] in ("int", "real")]
        pairs = [(F, A) for F in nf for A in nf if F is not A and (F["type"][0] == "real" or A["type"][0] == "int")]
        if not pairs or r.random() < 0.25:
            t = r.choice(["int", "int", "real"]) if self.pf["reals"] else "int"
            dv = ["i", r.choice([0, 1, 1, 2, 3])]
            A = {"name": self.name("f", len(self.fluents)), "type": [t, None, None], "sig": [], "default": dv}
            self.fluents.append(A)
            rec["fluents"] = self.fluents
            nf.append(A)
            pairs = [(F, A) for F in nf if F is not A and (F["type"][0] == "real" or t == "int")]
            if not pairs:
                F = {"name": self.name("f", len(self.fluents)), "type": ["real", None, None], "sig": [], "default": ["i", r.choice([0, 0, 1, 2])]}
                self.fluents.append(F)
                pairs = [(F, A)]
        F, A = r.choice(pairs)
        acts = rec["actions"]

        def params_for(*fls):
            ps = []
            for f in fls:
                for _, pt in f["sig"]:
                    if r.random() < 0.7:
                        ps.append([f"y{len(ps)}", pt])
            return ps

        params = params_for(F, A)
        sc = {"params": params}
        fe, ae = self.fluent_exp(F, sc, allow_fluent=False), self.fluent_exp(A, sc, allow_fluent=False)
        if fe is None or ae is None:
            return
        int_only = F["type"][0] == "int"
        x = r.random()
        if x < 0.5:
            amount = ae
        elif x < 0.7:
            amount = ["plus", ae, ["i", r.choice([1, 2])]]
        elif x < 0.85:
            amount = ["times", ae, ["i", r.choice([2, 3, -1])]]
        else:
            amount = ["minus", ae, self.num(0, sc, int_only)]
        eff = {"kind": r.choice(["inc", "inc", "dec"]), "fluent": fe, "value": amount, "cond": None, "forall": []}
        if self.pf["cond_effects"] and r.random() < 0.15:
            eff["cond"] = self.boolean(1, sc)
        effects = [eff]
        if r.random() < 0.3:
            e2 = self.effect(sc)
            if e2 is not None and e2["fluent"][1] != F["name"]:
                effects.append(e2)
        pre = [self.boolean(1, sc)] if r.random() < 0.3 else []
        acts.append({"name": self.name("a", len(acts)), "params": params, "pre": pre, "effects": effects})
        self.feat.add("amount-fluent")
        written = {e["fluent"][1] for a in acts for e in a["effects"]}
        if A["name"] not in written or r.random() < 0.6:
            params = params_for(A)
            sc = {"params": params}
            ae = self.fluent_exp(A, sc, allow_fluent=False)
            if ae is None:
                return
            kind = r.choice(["assign", "assign", "inc", "dec"])
            if kind == "assign":
                val = self.const_for(A["type"])
            else:
                val = ["i", r.choice([1, 1, 2, 3])]
            pre = [self.boolean(1, sc)] if r.random() < 0.3 else []
            acts.append({"name": self.name("a", len(acts)), "params": params, "pre": pre, "effects": [{"kind": kind, "fluent": ae, "value": val, "cond": None, "forall": []}]})
            self.feat.add("amount-fluent:writer-added")


def gen_problem_fixed(rng, profile=None):
    """Same contract as vk.gen.problem.gen_problem, with the repaired objs_of (+ the widenings switched on in the profile)."""
    g = FixedG(rng, profile)
    rec = g.gen()
    if g.pf.get("amount_fluents") and rng.random() < g.pf["amount_fluents"]:
        g.widen_amounts(rec)
    return rec, sorted(g.feat)


class TG(FixedG):
    def __init__(self, rng, profile=None):
        pf = dict(TEMPORAL_PROFILE)
        if profile:
            pf.update(profile)
        G.__init__(self, rng, pf)

    # ---- durations ------------------------------------------------------------------------------
    def duration(self, params, init):
        r, pf = self.rng, self.pf
        lo = r.choice([H, 1, 1, Fraction(3, 2), 2])
        lo = Fraction(lo)
        lo_e = _num(lo)
        approx_lo = lo
        # fluent-/parameter-dependent lower bound
        nf0 = [f for f in self.fluents if f["type"][0] in ("int", "real") and not f["sig"]]
        ips = [pn for pn, pt in params if pt[0] == "int"]
        x = r.random()
        if ips and x < pf["dur_params"] + 0.3:
            lo_e = ["plus", ["p", r.choice(ips)], _num(H)]
            approx_lo = None
            self.feat.add("duration:parameter")
        elif nf0 and x < pf["fluent_duration"]:
            f = r.choice(nf0)
            fe = ["f", f["name"]]
            v0 = init.get(str(fe))
            k = r.choice([0, H, 1])
            lo_e = fe if k == 0 else ["plus", fe, _num(k)]
            approx_lo = None if v0 is None else Fraction(v0) + k
            self.feat.add("duration:fluent")
        if r.random() < pf["interval_duration"]:
            kind = r.choice(["closed", "closed", "open", "lopen", "ropen"])
            w = Fraction(r.choice([H, 1, 1, Fraction(3, 2)]))
            if pf.get("narrow_duration") and r.random() < pf["narrow_duration"]:
                # width below / equal to / just above the time step the problem fixes (explicit epsilon or the default 1/100)
                w = self.step * r.choice([Fraction(1, 2), 1, 1, 2])
                kind = r.choice(["open", "open", "lopen", "ropen", "closed"])
                self.feat.add("duration:narrow")
            if approx_lo is not None and r.random() < 0.85:
                hi_e = _num(approx_lo + w)
            elif lo_e[0] in ("i", "r"):
                hi_e = _num(lo + w)
            else:
                hi_e = ["plus", copy.deepcopy(lo_e), _num(w)]
            self.feat.add("duration:" + kind)
            return [kind, lo_e, hi_e], approx_lo, (None if approx_lo is None else approx_lo + w)
        self.feat.add("duration:fixed")
        return ["fixed", lo_e], approx_lo, approx_lo

    def cond_interval(self, lo_approx):
        r, pf = self.rng, self.pf
        dmax = lo_approx if lo_approx is not None else H
        ds = [d for d in (H, Fraction(1)) if d <= dmax] or [H]
        if not pf["t2s"] and r.random() < pf["intermediate"]:
            # NB both bounds get a non-zero delay: Problem.kind classifies an interval such as [start, start+1] as
            # EXTERNAL_CONDITIONS_AND_EFFECTS (delay 0 is "not intermediate"), which the validator does not support
            d, d2 = r.choice(ds), r.choice(ds)
            k = r.choice(["ps", "ps", "pe", "cl", "op", "lo", "ro", "ss", "ee"])
            self.feat.add("cond:intermediate")
            if k == "ps":
                return ["point", ["start", str(d)]]
            if k == "pe":
                return ["point", ["end", str(-d)]]
            if k == "ss":
                return [r.choice(["closed", "lopen", "open"]), ["start", str(H)], ["start", str(H + d)]]
            if k == "ee":
                return [r.choice(["closed", "ropen", "lopen"]), ["end", str(-H - d)], ["end", str(-H)]]
            kind = {"cl": "closed", "op": "open", "lo": "lopen", "ro": "ropen"}[k]
            return [kind, ["start", str(d)], ["end", str(-d2)]]
        k = r.choice(["ps"] * 5 + ["pe"] * 2 + ["closed", "closed", "open", "open", "lopen", "ropen"])
        if k == "ps":
            self.feat.add("cond:start")
            return ["point", ["start", "0"]]
        if k == "pe":
            self.feat.add("cond:end")
            return ["point", ["end", "0"]]
        self.feat.add("cond:overall-" + k)
        return [k, ["start", "0"], ["end", "0"]]

    def eff_timing(self, lo_approx):
        r, pf = self.rng, self.pf
        dmax = lo_approx if lo_approx is not None else H
        ds = [d for d in (H, Fraction(1)) if d <= dmax] or [H]
        if not pf["t2s"] and r.random() < pf["intermediate"]:
            self.feat.add("effect:intermediate")
            d = r.choice(ds)
            return ["start", str(d)] if r.random() < 0.6 else ["end", str(-d)]
        if r.random() < 0.5:
            self.feat.add("effect:start")
            return ["start", "0"]
        self.feat.add("effect:end")
        return ["end", "0"]

    def durativize(self, a, init):
        dur, lo, hi = self.duration(a["params"], init)
        out = {"name": a["name"], "params": a["params"], "duration": dur, "conds": [], "effects": []}
        for c in a["pre"]:
            out["conds"].append([self.cond_interval(lo), c])
        for e in a["effects"]:
            out["effects"].append([self.eff_timing(lo), e])
        return out

    # ---- the problem -----------------------------------------------------------------------------
    def gen_temporal(self):
        r, pf = self.rng, self.pf
        rec = self.gen()
        if pf.get("amount_fluents") and r.random() < pf["amount_fluents"]:
            self.widen_amounts(rec)
        self.step, eps_early = Fraction(1, 100), None
        if pf.get("narrow_duration"):
            # the time step must be known before the durations are drawn
            eps_early = r.choice(["1/100", "1/10", "1/10", "1", "1"]) if r.random() < pf["epsilon"] else ""
            if eps_early:
                self.step = Fraction(eps_early)
        init = {}
        for f in self.fluents:
            if f["default"] is not None and f["type"][0] in ("int", "real") and not f["sig"]:
                init[str(["f", f["name"]])] = f["default"][1]
        for fe, val in rec["init"]:
            if val[0] in ("i", "r"):
                init[str(fe)] = val[1]
        acts = []
        for a in rec["actions"]:
            if r.random() < pf["durative"]:
                acts.append(self.durativize(a, init))
                self.feat.add("durative")
            else:
                acts.append(a)
                self.feat.add("instantaneous")
        rec["actions"] = acts
        if pf.get("locks") and r.random() < pf["locks"]:
            self.widen_locks(rec)
        if eps_early:
            rec["epsilon"] = eps_early
            self.feat.add("epsilon")
        if r.random() >= pf["keep_goals"]:
            rec["goals"] = []
        if pf["t2s"]:
            rec["invariants"] = []
            return rec
        if r.random() < pf["timed_effects"]:
            tes = []
            used = set()
            for _ in range(r.choice([1, 1, 2])):
                e = self.effect({})
                t = str(Fraction(r.choice([1, 1, 2, 3, 4, 5]), 2))
                if e is not None and (t, str(e["fluent"])) not in used:
                    used.add((t, str(e["fluent"])))
                    tes.append([["gstart", t], e])
            if tes:
                rec["timed_effects"] = tes
                self.feat.add("timed-effect")
        if r.random() < pf["timed_goals"]:
            tgs = []
            for _ in range(r.choice([1, 1, 2])):
                g = self.boolean(1, {})
                a = Fraction(r.choice([0, 1, 2, 3, 4]), 2)
                b = a + Fraction(r.choice([1, 2, 3]), 2)
                k = r.random()
                if k < pf["timed_goal_at_gend"]:
                    iv = ["point", ["gend", "0"]]
                    self.feat.add("timed-goal:at-global-end")
                elif k < 0.3:
                    iv = ["point", ["gstart", str(a)]]
                elif k < 0.5:
                    iv = [r.choice(["closed", "lopen"]), ["gstart", str(a)], ["gend", "0"]]
                    self.feat.add("timed-goal:until-global-end")
                else:
                    iv = [r.choice(["closed", "open", "lopen", "ropen"]), ["gstart", str(a)], ["gstart", str(b)]]
                tgs.append([iv, g])
            rec["timed_goals"] = tgs
            self.feat.add("timed-goal")
        if eps_early is None and r.random() < pf["epsilon"]:
            rec["epsilon"] = r.choice(["1/100", "1/100", "1/10", "1"])
            self.feat.add("epsilon")
        return rec

    # ---- widening: a fluent changed for the duration of an action and set again at its end -----------------
    def widen_locks(self, rec):
        """One durative action gets, on a ground or parameter-indexed fluent expression `fe` it does not write otherwise:
        a condition `fe == v0` at its start (sometimes none), a start effect `fe := v1` (v1 != v0) and an end effect
        `fe := v0` (restoring; sometimes another value v2, sometimes none) - the resource-lock shape for v0 = true, also for
        numeric and object-valued fluents.  Another action (an existing one, or a new one with a grammar effect) gets a
        precondition `fe' == v` for v in {v0, v1} on the same fluent, so that plans in which a later step reads the value left
        behind exist.  v0 is the initial value of `fe` when it is ground and defined initially."""
        r = self.rng
        acts = rec["actions"]
        dur = [a for a in acts if "duration" in a]
        if not dur:
            return
        a = r.choice(dur)
        sc = {"params": a["params"]}
        written = {e["fluent"][1] for _, e in a["effects"]}
        cands = [f for f in self.fluents if f["name"] not in written] or list(self.fluents)
        f = r.choice(cands)
        fe = self.fluent_exp(f, sc, allow_fluent=False)
        if fe is None:
            return
        v0 = None
        if all(x[0] == "o" for x in fe[2:]):
            for g, val in rec["init"]:
                if g == fe:
                    v0 = val
            if v0 is None:
                v0 = f["default"]
        t = f["type"]
        if v0 is None or r.random() < 0.15:
            v0 = self.const_for(t)
        if v0 is None:
            return
        others = []
        for _ in range(6):
            c = self.const_for(t)
            if c is not None and c != v0 and c not in others:
                others.append(c)
        if not others:
            return
        v1 = others[0]
        x = r.random()
        v_end = v0 if x < 0.7 else (r.choice(others) if x < 0.85 else None)

        def eq(e, v):
            if t == "bool":
                return e if v[1] else ["not", e]
            return ["eq", e, v]

        def assign(v):
            return {"kind": "assign", "fluent": fe, "value": v, "cond": None, "forall": []}

        if r.random() < 0.85:
            a["conds"].append([["point", ["start", "0"]], eq(fe, v0)])
        a["effects"].append([["start", "0"], assign(v1)])
        if v_end is not None:
            a["effects"].append([["end", "0"], assign(v_end)])
        self.feat.add("lock")
        if v_end == v0:
            self.feat.add("lock:restoring")
        # a reader of the value left behind
        v = r.choice([v0, v1, v1])
        rest = [b for b in acts if b is not a]
        if rest and r.random() < 0.5:
            b = r.choice(rest)
            fe2 = self.fluent_exp(f, {"params": b["params"]}, allow_fluent=False)
            if fe2 is None:
                return
            if "duration" in b:
                b["conds"].append([["point", ["start", "0"]], eq(fe2, v)])
            else:
                b["pre"].append(eq(fe2, v))
        else:
            params = [[f"y{j}", pt] for j, (_, pt) in enumerate(f["sig"])] if r.random() < 0.6 else []
            sc2 = {"params": params}
            fe2 = self.fluent_exp(f, sc2, allow_fluent=False)
            e2 = self.effect(sc2)
            if fe2 is None or e2 is None:
                return
            b = {"name": self.name("a", len(acts)), "params": params, "pre": [eq(fe2, v)], "effects": [e2]}
            if r.random() < 0.5:
                b = self.durativize(b, {})
            acts.append(b)
        self.feat.add("lock:reader")


def gen_temporal(rng, profile=None):
    g = TG(rng, profile)
    rec = g.gen_temporal()
    return rec, sorted(g.feat)


# ---- plans ----------------------------------------------------------------------------------------------
def _subtypes(rec, t):
    out = [t]
    ch = True
    while ch:
        ch = False
        for n, f in rec.get("types", []):
            if f in out and n not in out:
                out.append(n)
                ch = True
    return out


def _domain(rec, pt):
    if pt == "bool":
        return [False, True]
    if pt[0] == "user":
        st = _subtypes(rec, pt[1])
        return [o for o, ot in rec["objects"] if ot[1] in st]
    if pt[0] == "int" and pt[1] is not None and pt[2] is not None:
        return list(range(pt[1], pt[2] + 1))
    return [0, 1, 2]


def _approx(e, init, params):
    """Best-effort value of a duration-bound recipe from constants / initial values / chosen parameters."""
    k = e[0]
    if k in ("i", "r"):
        return Fraction(e[1])
    if k == "p":
        v = params.get(e[1])
        return Fraction(v) if isinstance(v, int) and not isinstance(v, bool) else None
    if k == "f" and len(e) == 2:
        v = init.get(e[1])
        return None if v is None else Fraction(v)
    if k in ("plus", "minus"):
        vs = [_approx(a, init, params) for a in e[1:]]
        if any(v is None for v in vs):
            return None
        return sum(vs) if k == "plus" else vs[0] - vs[1]
    return None


def _init_values(rec):
    init = {}
    for f in rec["fluents"]:
        if f.get("default") is not None and f["type"][0] in ("int", "real") and not f["sig"]:
            init[f["name"]] = f["default"][1]
    for fe, val in rec.get("init", []):
        if len(fe) == 2 and val[0] in ("i", "r"):
            init[fe[1]] = val[1]
    return init


def action_instants(a, start, dur):
    """Absolute instants of one durative step (start, end, condition bounds, effect timings)."""
    out = {start, start + dur}
    def ab(t):
        return start + Fraction(t[1]) + (dur if t[0] == "end" else 0)
    for t, _ in a.get("effects", []):
        out.add(ab(t))
    for iv, _ in a.get("conds", []):
        for t in iv[1:]:
            out.add(ab(t))
    return out


def _gen_step(r, rec, init, anchors, coincide, on_bound, off):
    a = r.choice(rec["actions"])
    args = []
    for pn, pt in a["params"]:
        dom = _domain(rec, pt)
        args.append(r.choice(dom) if dom else None)
    params = {pn: v for (pn, _), v in zip(a["params"], args)}
    if anchors and r.random() < coincide:
        start = r.choice(anchors)
    else:
        start = Fraction(r.choice([0, 1, 1, 2, 2, 3, 4, 5, 6, 8]), 2)
    dur = None
    if "duration" in a:
        d = a["duration"]
        lo = _approx(d[1], init, params)
        hi = lo if d[0] == "fixed" else _approx(d[2], init, params)
        x = r.random()
        grid = Fraction(r.choice([1, 2, 2, 3, 4, 5]), 2)
        if lo is None or hi is None:
            dur = grid
        elif d[0] == "fixed":
            dur = lo if x > off else r.choice([lo + H, max(lo - H, Fraction(0)), grid])
        elif x < on_bound:
            dur = r.choice([lo, hi])
        elif x < 1 - off:
            dur = (lo + hi) / 2 if r.random() < 0.6 else lo + (hi - lo) / 4
        else:
            dur = r.choice([hi + H, max(lo - H, Fraction(0)), grid])
        # sometimes align the end with an anchor
        if anchors and r.random() < coincide / 2:
            cands = [t - dur for t in anchors if t - dur >= 0]
            if cands:
                start = r.choice(cands)
        new_anchors = sorted(x for x in action_instants(a, start, dur) if x >= 0)
    else:
        new_anchors = [start]
    return [str(start), a["name"], args, None if dur is None else str(dur)], new_anchors


def gen_tt_plan(rng, rec, n_steps=None, coincide=0.45, on_bound=0.55, off=0.12, accept=None, tries=4, guided_last=True):
    """Random time-triggered plan recipe.  `accept(partial_plan) -> bool` (optional) guides the construction: for every step up
    to `tries` candidates are drawn and the first accepted one is kept (the last candidate if none is accepted); with
    guided_last=False the final step is drawn unguided."""
    r = rng
    init = _init_values(rec)
    n = n_steps if n_steps is not None else r.choice([1, 2, 2, 3, 3, 4])
    anchors = [Fraction(t[1]) for t, _ in rec.get("timed_effects", [])]
    for iv, _ in rec.get("timed_goals", []):
        anchors += [Fraction(t[1]) for t in iv[1:] if t[0] == "gstart"]
    steps = []
    for k in range(n):
        guided = accept is not None and (guided_last or k < n - 1)
        for _ in range(tries if guided else 1):
            step, na = _gen_step(r, rec, init, anchors, coincide, on_bound, off)
            if not guided or accept(steps + [step]):
                break
        steps.append(step)
        anchors.extend(na)
    return steps


def instantiate(rec, env):
    """vk.recipe.instantiate_problem + timed effects (vk/recipe.py::_add_effect calls the non-existent Problem.add_effect for
    timed *assignments*; they are therefore added here through Problem.add_timed_effect)."""
    from vk.recipe import instantiate_problem, timing

    r = dict(rec)
    tes = r.pop("timed_effects", [])
    pb, ctx = instantiate_problem(r, env)
    for t, eff in tes:
        fl, val = ctx.expr(eff["fluent"]), ctx.expr(eff["value"])
        cond = ctx.expr(eff["cond"]) if eff.get("cond") is not None else True
        fa = tuple(ctx.var(n, ty) for n, ty in eff.get("forall", []))
        kind = eff.get("kind", "assign")
        add = {"assign": pb.add_timed_effect, "inc": pb.add_increase_effect, "dec": pb.add_decrease_effect}[kind]
        add(timing(t), fl, val, cond, fa)
    return pb, ctx


def plan_steps(problem, plan):
    """plan recipe -> timed_steps [(start, action, args, duration)] for vk.ref.ttsem."""
    return [(Fraction(s), problem.action(a), tuple(args), None if d is None else Fraction(d)) for s, a, args, d in plan]

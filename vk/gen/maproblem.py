"""Seeded generator of small multi-agent problem recipes + instantiation through the public constructors (owner: C37).

recipe: {"types":[[name,father]], "objects":[[name,type]],
         "pool":[fluent dict]            fluents shared by reference among agents (the library's own idiom: the same Fluent
                                         object is added to several agents, Dot(agent, f) selects the owner),
         "env_fluents":[fluent dict],
         "agents":[{"name", "fluents":[[pool_name, public?]], "actions":[action_name]}],
         "actions":{key: {"params":[[n,type]], "pre":[expr], "effects":[eff], "label": name (optional)}}
                                         an action (one object) may be shared by several agents; the action's name is its
                                         "label" when given, else its key - action names are only unique *per agent*, so
                                         different keys may carry the same label (same-named actions of different agents
                                         with different or with equal bodies),
         "init":[[fluent_expr(with "dot" for agent fluents), value]], "goals":[expr]}
expressions / effects use the vk.recipe formats.
"""
from collections import OrderedDict

from vk.recipe import Ctx, _add_effect


class G:
    def __init__(self, rng, profile=None):
        self.rng = rng
        self.pf = dict(
            cond_effects=0.55,
            disjunctions=True,
            numeric=0.4,
            object_fluents=0.25,
            quantifiers=0.12,
            forall_effects=0.12,
            max_agents=3,
            dot=0.5,
            shared_actions=0.3,
            same_names=0.35,  # probability that actions of different agents get the same name (different bodies / equal copies)
        )
        if profile:
            self.pf.update(profile)
        self.feat = set()

    # ---- expressions ---------------------------------------------------------------------------
    def fexp(self, f, scope):
        """fluent expression recipe for pool/env fluent dict f with arguments chosen from scope."""
        r = self.rng
        args = []
        for pn, pt in f["sig"]:
            cands = [["o", o] for o, t in self.objects if t == pt]
            for n, t in scope.get("params", []):
                if t == pt:
                    cands += [["p", n]] * 3
            for n, t in scope.get("vars", []):
                if t == pt:
                    cands += [["v", n, t]] * 5
            args.append(r.choice(cands))
        return ["f", f["name"]] + args

    def readable(self, scope):
        """[(fluent dict, wrapper)] an expression inside `scope` may read: own + env bare, others' public through Dot."""
        out = []
        ag = scope.get("agent")
        if ag is None:  # goal context: everything through Dot
            for a in self.agents:
                for fn, pub in a["fluents"]:
                    out.append((self.pool[fn], a["name"]))
        else:
            for fn, pub in ag["fluents"]:
                out.append((self.pool[fn], None))
            if self.rng.random() < self.pf["dot"]:
                for a in self.agents:
                    if a is not ag:
                        for fn, pub in a["fluents"]:
                            if pub:
                                out.append((self.pool[fn], a["name"]))
        for f in self.env_fluents:
            out.append((f, None))
        return out

    def wrap(self, fe, owner):
        if owner is not None:
            self.feat.add("dot")
            return ["dot", owner, fe]
        return fe

    def atom(self, scope):
        r = self.rng
        rd = self.readable(scope)
        bools = [(f, o) for f, o in rd if f["type"] == "bool"]
        nums = [(f, o) for f, o in rd if f["type"] != "bool" and f["type"][0] == "int"]
        objs = [(f, o) for f, o in rd if f["type"] != "bool" and f["type"][0] == "user"]
        x = r.random()
        if nums and x < 0.25:
            f, o = r.choice(nums)
            op = r.choice(["le", "lt", "ge", "eq"])
            return [op, self.wrap(self.fexp(f, scope), o), ["i", r.choice([0, 1, 2])]]
        if objs and x < 0.4:
            f, o = r.choice(objs)
            t = f["type"]
            cands = [["o", ob] for ob, ot in self.objects if ot == t] + [["p", n] for n, pt in scope.get("params", []) if pt == t]
            return ["eq", self.wrap(self.fexp(f, scope), o), r.choice(cands)]
        if bools:
            f, o = r.choice(bools)
            return self.wrap(self.fexp(f, scope), o)
        return ["b", True]

    def boolean(self, depth, scope):
        r = self.rng
        x = r.random()
        if depth <= 0 or x < 0.35:
            return self.atom(scope)
        if x < 0.5:
            return ["not", self.boolean(depth - 1, scope)]
        if x < 0.65:
            return ["and", self.boolean(depth - 1, scope), self.boolean(depth - 1, scope)]
        if x < 0.85 and self.pf["disjunctions"]:
            self.feat.add("disjunction")
            return ["or", self.boolean(depth - 1, scope), self.boolean(depth - 1, scope)]
        if x < 0.92 and self.pf["disjunctions"]:
            self.feat.add("disjunction")
            return [r.choice(["implies", "iff"]), self.boolean(depth - 1, scope), self.boolean(depth - 1, scope)]
        if self.types and r.random() < self.pf["quantifiers"] * 4:
            t = ["user", self.types[0][0]]
            v = [f"q{len(scope.get('vars', []))}", t]
            sc = dict(scope)
            sc["vars"] = list(scope.get("vars", [])) + [v]
            self.feat.add("quantifier")
            return [r.choice(["exists", "forall"]), [v], self.boolean(depth - 1, sc)]
        return self.atom(scope)

    # ---- problem -------------------------------------------------------------------------------
    def gen(self):
        r, pf = self.rng, self.pf
        self.types = [["L", None]] if r.random() < 0.6 else []
        self.objects = [[f"l{i}", ["user", "L"]] for i in range(r.choice([1, 2, 2]))] if self.types else []
        pool = []
        nb = r.choice([2, 3, 3, 4])
        for i in range(nb):
            sig = []
            if self.types and r.random() < 0.25:
                sig = [["x", ["user", "L"]]]
            pool.append({"name": f"f{i}", "type": "bool", "sig": sig, "default": ["b", r.random() < 0.3]})
        if r.random() < pf["numeric"]:
            pool.append({"name": "n0", "type": ["int", 0, 2], "sig": [], "default": ["i", r.choice([0, 1])]})
            self.feat.add("numeric")
        if self.types and r.random() < pf["object_fluents"]:
            pool.append({"name": "at", "type": ["user", "L"], "sig": [], "default": ["o", self.objects[0][0]]})
            self.feat.add("object-fluent")
        self.pool = {f["name"]: f for f in pool}
        self.env_fluents = []
        for i in range(r.choice([0, 1, 1, 2])):
            if r.random() < 0.25:
                self.env_fluents.append({"name": f"e{i}", "type": ["int", 0, 2], "sig": [], "default": ["i", 0]})
            else:
                self.env_fluents.append({"name": f"e{i}", "type": "bool", "sig": [], "default": ["b", r.random() < 0.3]})
        na = r.choice([2, 2, 2, 3]) if pf["max_agents"] >= 3 else 2
        self.agents = []
        for i in range(na):
            k = r.randint(1, min(3, len(pool)))
            fl = r.sample(sorted(self.pool), k)
            self.agents.append({"name": f"A{i}", "fluents": [[fn, r.random() < 0.6] for fn in sorted(fl)], "actions": []})
        self.actions = {}
        ai = 0
        for ag in self.agents:
            for _ in range(r.choice([1, 1, 2])):
                name = f"act{ai}"
                ai += 1
                self.actions[name] = self.action(ag)
                ag["actions"].append(name)
        # shared actions: an action object whose fluents every sharing agent owns
        if r.random() < pf["shared_actions"]:
            src = r.choice(self.agents)
            an = r.choice(src["actions"])
            used = self.pool_names_in(self.actions[an])
            for ag in self.agents:
                if ag is not src and used <= {fn for fn, _ in ag["fluents"]} and an not in ag["actions"]:
                    ag["actions"].append(an)
                    self.feat.add("shared-action")
        goals = [self.boolean(2, {}) for _ in range(r.choice([1, 1, 2]))]
        init = []
        for ag in self.agents:
            for fn, _ in ag["fluents"]:
                f = self.pool[fn]
                if r.random() < 0.4:
                    for args in self.ground_args(f):
                        init.append([["dot", ag["name"], ["f", fn] + [["o", a] for a in args]], self.const_for(f["type"])])
        for f in self.env_fluents:
            if r.random() < 0.4:
                init.append([["f", f["name"]], self.const_for(f["type"])])
        if r.random() < pf["same_names"]:
            self.same_names()
        return {
            "name": "ma",
            "types": self.types,
            "objects": self.objects,
            "pool": pool,
            "env_fluents": self.env_fluents,
            "agents": self.agents,
            "actions": self.actions,
            "init": init,
            "goals": goals,
        }

    def same_names(self):
        """Action names are unique per agent only: the own (unshared) action of one agent lends its name to one own action of
        each of some other agents - either keeping that action's different body, or (when the other agent owns every agent
        fluent the body mentions) replacing it by an equal copy of the lender's body (a second action object, not a shared one).
        The lender is any agent, so the same-named actions appear in both agent orders."""
        import copy

        r = self.rng
        owners = {}
        for ag in self.agents:
            for k in ag["actions"]:
                owners.setdefault(k, []).append(ag)
        own = lambda ag: [k for k in ag["actions"] if len(owners[k]) == 1]
        lenders = [ag for ag in self.agents if own(ag)]
        if not lenders:
            return
        src = r.choice(lenders)
        k1 = r.choice(own(src))
        label = self.actions[k1].get("label", k1)
        first = True
        others = [ag for ag in self.agents if ag is not src]
        r.shuffle(others)
        for ag in others:
            if not own(ag) or any(self.actions[k].get("label", k) == label for k in ag["actions"]):
                continue
            if not first and r.random() < 0.4:
                continue
            first = False
            k2 = r.choice(own(ag))
            if r.random() < 0.35 and self.pool_names_in(self.actions[k1]) <= {fn for fn, _ in ag["fluents"]}:
                self.actions[k2] = copy.deepcopy(self.actions[k1])
                self.feat.add("same-name:equal-copy")
            else:
                self.feat.add("same-name:different-body")
                order = [a["name"] for a in self.agents]
                self.feat.add("same-name:different-body:lender-" + ("first" if order.index(src["name"]) < order.index(ag["name"]) else "second"))
            self.actions[k2]["label"] = label

    def pool_names_in(self, act):
        out = set()

        def walk(e):
            if isinstance(e, list):
                if e and e[0] == "dot":
                    return  # refers to another agent
                if e and e[0] == "f" and e[1] in self.pool:
                    out.add(e[1])
                for x in e:
                    walk(x)
            elif isinstance(e, dict):
                for x in e.values():
                    walk(x)

        walk(act)
        return out

    def ground_args(self, f):
        import itertools

        doms = [[o for o, t in self.objects if t == pt] for _, pt in f["sig"]]
        return list(itertools.product(*doms))

    def const_for(self, t):
        r = self.rng
        if t == "bool":
            return ["b", r.random() < 0.5]
        if t[0] == "int":
            return ["i", r.randint(t[1], t[2])]
        return ["o", r.choice([o for o, ot in self.objects if ot == t])]

    def action(self, ag):
        r, pf = self.rng, self.pf
        params = []
        if self.types and r.random() < 0.35:
            params.append(["y", ["user", "L"]])
        sc = {"params": params, "agent": ag}
        pre = [self.boolean(2, sc) for _ in range(r.choice([0, 1, 1, 2]))]
        effects = []
        writable = [self.pool[fn] for fn, _ in ag["fluents"]] + list(self.env_fluents)
        for _ in range(r.choice([1, 2, 2, 3])):
            f = r.choice(writable)
            esc = dict(sc)
            forall = []
            if f["sig"] and r.random() < pf["forall_effects"] * 3:
                v = ["e", f["sig"][0][1]]
                forall = [v]
                esc["vars"] = [v]
                self.feat.add("forall-effect")
            fe = self.fexp(f, esc)
            if forall:
                fe[2] = ["v", "e", forall[0][1]]
            cond = None
            if r.random() < pf["cond_effects"]:
                cond = self.boolean(r.choice([1, 1, 2]), esc)
                self.feat.add("conditional-effect")
            t = f["type"]
            if t == "bool":
                val = ["b", r.random() < 0.6] if r.random() < 0.85 else self.boolean(1, esc)
                kind = "assign"
            elif t[0] == "int":
                x = r.random()
                if x < 0.5:
                    kind, val = r.choice(["inc", "dec"]), ["i", 1]
                else:
                    kind, val = "assign", ["i", r.randint(t[1], t[2])]
            else:
                kind = "assign"
                cands = [["o", o] for o, ot in self.objects if ot == t] + [["p", n] for n, pt in params if pt == t]
                val = r.choice(cands)
            effects.append({"kind": kind, "fluent": fe, "value": val, "cond": cond, "forall": forall})
        return {"params": params, "pre": pre, "effects": effects}


def gen_ma_problem(rng, profile=None):
    g = G(rng, profile)
    rec = g.gen()
    return rec, sorted(g.feat)


def instantiate(rec, env):
    """Builds the MultiAgentProblem of a recipe through the public constructors. Returns (problem, ctx)."""
    from unified_planning.model import Fluent, InstantaneousAction, Object
    from unified_planning.model.multi_agent import MultiAgentProblem, Agent

    ctx = Ctx(env)
    pb = MultiAgentProblem(rec.get("name", "ma"), env)
    for name, father in rec.get("types", []):
        ctx.types[name] = ctx.tm.UserType(name, ctx.types[father] if father else None)
    for name, t in rec.get("objects", []):
        o = Object(name, ctx.type(t), env)
        ctx.objects[name] = o
        pb.add_object(o)
    for f in rec["pool"] + rec["env_fluents"]:
        sig = OrderedDict((n, ctx.type(t)) for n, t in f.get("sig", []))
        ctx.fluents[f["name"]] = Fluent(f["name"], ctx.type(f["type"]), sig, env)
    for f in rec["env_fluents"]:
        pb.ma_environment.add_fluent(ctx.fluents[f["name"]], default_initial_value=ctx.expr(f["default"]))
    pool = {f["name"]: f for f in rec["pool"]}
    actions = {}
    for an, a in rec["actions"].items():
        params = OrderedDict((n, ctx.type(t)) for n, t in a.get("params", []))
        act = InstantaneousAction(a.get("label", an), params, env)
        ctx.params = {p.name: p for p in act.parameters}
        for c in a.get("pre", []):
            act.add_precondition(ctx.expr(c))
        for eff in a.get("effects", []):
            _add_effect(ctx, act, eff)
        ctx.params = {}
        actions[an] = act
    for ag in rec["agents"]:
        agent = Agent(ag["name"], pb)
        for fn, public in ag["fluents"]:
            d = ctx.expr(pool[fn]["default"])
            if public:
                agent.add_public_fluent(ctx.fluents[fn], default_initial_value=d)
            else:
                agent.add_private_fluent(ctx.fluents[fn], default_initial_value=d)
        for an in ag["actions"]:
            agent.add_action(actions[an])
        pb.add_agent(agent)
    for fe, v in rec.get("init", []):
        pb.set_initial_value(ctx.expr(fe), ctx.expr(v))
    for g in rec.get("goals", []):
        pb.add_goal(ctx.expr(g))
    return pb, ctx

"""C10 workload (owner: check C10): builds small problems of every problem class through the public constructors and
plants one feature in one syntactic position (spec = (pclass, where, feature) from vk/checks/c10_positions.py).

The base problem is kept as bare as possible so that the planted feature occurs *only* at the planted position (an
omission in the kind computation is then not masked by another occurrence); optional extra plants add diversity.
`build(rng, env, specs)` returns (problem, log) where log is a human-readable list of what was planted.
"""
from collections import OrderedDict
from fractions import Fraction

import unified_planning as up
from unified_planning.model import (
    Fluent,
    InstantaneousAction,
    DurativeAction,
    Problem,
    Object,
    Variable,
    Parameter,
)
from unified_planning.model import metrics as upm
from unified_planning.model.timing import (
    StartTiming,
    EndTiming,
    GlobalStartTiming,
    GlobalEndTiming,
    ClosedTimeInterval,
    OpenTimeInterval,
    TimePointInterval,
)


class Skip(Exception):
    """The requested plant does not exist for this class (generator limitation, counted)."""


class B:
    def __init__(self, rng, env, pclass, pb=None):
        """pb: an existing problem of class `pclass` to adopt (history cases plant into / mutate a problem that was built
        elsewhere, e.g. by the C01 grammar); None = start from a bare problem."""
        self.rng = rng
        self.env = env
        self.em = env.expression_manager
        self.tm = env.type_manager
        self.pc = pclass
        self.log = []
        self.c = {}  # ingredient cache
        self.n = 0
        self.owner = {}  # ma: fluent -> agent | None (environment)
        self.agents_added = False
        self.shadows = []  # ma: (name space, fluent) declared by shadow_fluents
        self.rich_shadows = False
        self.defer_second = False  # ma: finish() leaves the second agent out (history cases add it after an evaluation)
        if pb is not None:
            assert pclass != "ma"
            self.pb = pb
        elif pclass == "prob":
            self.pb = Problem("p", env)
        elif pclass == "htn":
            from unified_planning.model.htn import HierarchicalProblem

            self.pb = HierarchicalProblem("p", env)
        elif pclass == "cont":
            from unified_planning.model.contingent import ContingentProblem

            self.pb = ContingentProblem("p", env)
        elif pclass == "sched":
            from unified_planning.model.scheduling import SchedulingProblem

            self.pb = SchedulingProblem("p", env)
        elif pclass == "ma":
            from unified_planning.model.multi_agent import MultiAgentProblem, Agent

            self.pb = MultiAgentProblem("p", env)
            self.ag = Agent("A0", self.pb)
            self.ag2 = Agent("A1", self.pb)
        else:
            raise ValueError(pclass)

    # ---- names ---------------------------------------------------------------------------------
    def fresh(self, base):
        self.n += 1
        return f"{base}{self.n}"

    # ---- ingredients ---------------------------------------------------------------------------
    def T(self, hier=False):
        """flat user type T0, or S0 whose father is T0."""
        if "T0" not in self.c:
            self.c["T0"] = self.tm.UserType("T0")
        if hier:
            if "S0" not in self.c:
                self.c["S0"] = self.tm.UserType("S0", self.c["T0"])
            return self.c["S0"]
        return self.c["T0"]

    def obj(self, t, k=0):
        key = ("obj", t.name, k)
        if key not in self.c:
            o = Object(f"o_{t.name}_{k}", t, self.env)
            self.pb.add_object(o)
            self.c[key] = o
        return self.c[key]

    def add_fluent(self, fl, default=None, where=None):
        """where (ma only): 'env' | 'agent'."""
        kw = {} if default is None else {"default_initial_value": default}
        if self.pc == "ma":
            if where is None:
                where = self.rng.choice(["env", "agent", "agent"])
            if where == "env":
                self.pb.ma_environment.add_fluent(fl, **kw)
                self.owner[fl] = None
            else:
                if self.rng.random() < 0.5:
                    self.ag.add_public_fluent(fl, **kw)
                else:
                    self.ag.add_private_fluent(fl, **kw)
                self.owner[fl] = self.ag
        else:
            self.pb.add_fluent(fl, **kw)
        return fl

    def bfl(self, i=0):
        key = ("b", i)
        if key not in self.c:
            self.c[key] = self.add_fluent(Fluent(f"b{i}", self.tm.BoolType(), OrderedDict(), self.env), False)
        return self.c[key]

    def pfl(self, t=None):
        t = t or self.T()
        key = ("p", t.name)
        if key not in self.c:
            self.obj(t)
            self.c[key] = self.add_fluent(Fluent(f"p_{t.name}", self.tm.BoolType(), OrderedDict(x=t), self.env), False)
        return self.c[key]

    def nfl(self, i=0):
        key = ("n", i)
        if key not in self.c:
            self.c[key] = self.add_fluent(Fluent(f"n{i}", self.tm.IntType(), OrderedDict(), self.env), 0)
        return self.c[key]

    def rfl(self, i=0):
        key = ("r", i)
        if key not in self.c:
            self.c[key] = self.add_fluent(Fluent(f"r{i}", self.tm.RealType(), OrderedDict(), self.env), 0)
        return self.c[key]

    def ofl(self, i=0):
        key = ("of", i)
        if key not in self.c:
            t = self.T()
            o = self.obj(t)
            self.c[key] = self.add_fluent(Fluent(f"of{i}", t, OrderedDict(), self.env), o)
        return self.c[key]

    # ---- fluent expressions in a context ---------------------------------------------------------
    def fx(self, fl, *args, ctx="local"):
        e = self.em.FluentExp(fl, tuple(self.em.auto_promote(*args)) if args else tuple())
        if self.pc == "ma" and ctx == "global" and self.owner.get(fl) is not None:
            return self.em.Dot(self.owner[fl], e)
        return e

    # ---- conditions ----------------------------------------------------------------------------
    def atom(self, ctx, i=0):
        return self.fx(self.bfl(i), ctx=ctx)

    def mk_static_cond(self, feature, flag1, flag2, x):
        """condition over parameters only (HTN constraints must not mention fluents): flag1/flag2 Boolean, x of type T0."""
        em, r = self.em, self.rng
        t = self.T()
        if feature == "NEGATIVE_CONDITIONS":
            c = em.Not(flag1)
        elif feature == "DISJUNCTIVE_CONDITIONS":
            c = em.Or(flag1, flag2)
        elif feature == "EQUALITIES":
            c = em.Equals(x, em.ObjectExp(self.obj(t)))
        elif feature in ("EXISTENTIAL_CONDITIONS", "UNIVERSAL_CONDITIONS"):
            v = Variable(self.fresh("v"), t, self.env)
            self.obj(t)
            body = em.Equals(em.VariableExp(v), x)
            c = em.Exists(body, v) if feature == "EXISTENTIAL_CONDITIONS" else em.Forall(body, v)
        else:
            raise ValueError(feature)
        if r.random() < 0.3:
            c = em.And(flag2, c)
        return c

    def mk_cond(self, feature, ctx="local", params=None):
        em, r = self.em, self.rng
        if feature == "NEGATIVE_CONDITIONS":
            c = em.Not(self.atom(ctx, 1))
        elif feature == "DISJUNCTIVE_CONDITIONS":
            c = em.Or(self.atom(ctx, 1), self.atom(ctx, 2))
        elif feature == "EQUALITIES":
            x = r.random()
            if x < 0.5:
                c = em.Equals(self.fx(self.ofl(), ctx=ctx), em.ObjectExp(self.obj(self.T())))
            else:
                c = em.Equals(self.fx(self.nfl(), ctx=ctx), em.Int(r.choice([0, 1, 3])))
        elif feature in ("EXISTENTIAL_CONDITIONS", "UNIVERSAL_CONDITIONS"):
            t = self.T()
            p = self.pfl(t)
            v = Variable(self.fresh("v"), t, self.env)
            body = self.fx(p, em.VariableExp(v), ctx=ctx)
            if r.random() < 0.3:
                body = em.And(body, self.atom(ctx, 1))
            c = em.Exists(body, v) if feature == "EXISTENTIAL_CONDITIONS" else em.Forall(body, v)
        else:
            raise ValueError(feature)
        if r.random() < 0.3:
            c = em.And(self.atom(ctx, 3), c)
        return c

    # ---- containers ----------------------------------------------------------------------------
    def add_action(self, a):
        if self.pc == "ma":
            self.ag.add_action(a)
        elif self.pc == "sched":
            raise Skip("no actions in scheduling problems")
        else:
            self.pb.add_action(a)
        return a

    def new_inst(self, params=None, sensing=False):
        if sensing:
            from unified_planning.model.contingent import SensingAction

            a = SensingAction(self.fresh("sense"), params or OrderedDict(), self.env)
            a.add_observed_fluent(self.fx(self.bfl(0)))
        else:
            a = InstantaneousAction(self.fresh("act"), params or OrderedDict(), self.env)
        return a

    def new_dur(self, params=None):
        a = DurativeAction(self.fresh("dur"), params or OrderedDict(), self.env)
        a.set_fixed_duration(self.rng.choice([1, 2, Fraction(3, 2)]))
        return a

    def interval(self, glob=False):
        r = self.rng
        if glob:
            s, e = GlobalStartTiming(r.choice([1, 2])), GlobalStartTiming(r.choice([4, 5]))
            x = r.random()
            if x < 0.4:
                return TimePointInterval(s)
            if x < 0.5:
                return TimePointInterval(GlobalEndTiming())
            return ClosedTimeInterval(s, e) if x < 0.8 else OpenTimeInterval(s, e)
        x = r.random()
        if x < 0.35:
            return TimePointInterval(StartTiming())
        if x < 0.5:
            return TimePointInterval(EndTiming())
        if x < 0.85:
            return ClosedTimeInterval(StartTiming(), EndTiming())
        return OpenTimeInterval(StartTiming(), EndTiming())

    def activity(self):
        act = self.pb.add_activity(self.fresh("act"), duration=self.rng.choice([1, 2, 3]))
        return act

    def method_and_task(self, params=None):
        from unified_planning.model.htn import Method

        t = self.pb.add_task(self.fresh("task"))
        m = Method(self.fresh("m"), params or OrderedDict(), self.env)
        m.set_task(t)
        return m, t

    # ---- planting a condition at a position ------------------------------------------------------
    def plant_cond(self, where, feature):
        em, pb, r = self.em, self.pb, self.rng
        ctx = "local"
        if self.pc == "ma" and where == "goal":
            ctx = "global"
        c = self.mk_cond(feature, ctx)
        b0 = self.fx(self.bfl(0))
        T = em.TRUE()
        if where in ("action-precondition", "sensing-precondition"):
            a = self.new_inst(sensing=where.startswith("sensing"))
            a.add_precondition(c)
            if not where.startswith("sensing") or r.random() < 0.3:
                a.add_effect(b0, True)
            self.add_action(a)
        elif where == "action-effect-condition":
            a = self.new_inst()
            a.add_effect(b0, True, c)
            self.add_action(a)
        elif where == "durative-condition":
            a = self.new_dur()
            a.add_condition(self.interval(), c)
            a.add_effect(EndTiming(), b0, True)
            self.add_action(a)
        elif where == "durative-effect-condition":
            a = self.new_dur()
            a.add_effect(r.choice([StartTiming(), EndTiming()]), b0, True, c)
            self.add_action(a)
        elif where == "timed-effect-condition":
            pb.add_timed_effect(GlobalStartTiming(r.choice([1, 3, 5])), b0, True, c)
        elif where == "goal":
            pb.add_goal(c)
        elif where == "timed-goal":
            pb.add_timed_goal(self.interval(glob=True), c)
        elif where == "state-invariant":
            pb.add_state_invariant(c)
        elif where == "trajectory-constraint":
            k = r.choice(["sometime", "amo", "sb", "sa"])
            if k == "sometime":
                tc = em.Sometime(c)
            elif k == "amo":
                tc = em.AtMostOnce(c)
            elif k == "sb":
                tc = em.SometimeBefore(c, b0) if r.random() < 0.5 else em.SometimeBefore(b0, c)
            else:
                tc = em.SometimeAfter(c, b0) if r.random() < 0.5 else em.SometimeAfter(b0, c)
            pb.add_trajectory_constraint(tc)
        elif where == "wrapped-state-invariant":
            if r.random() < 0.6:
                tc = em.And(em.Always(c), em.Always(self.fx(self.bfl(4))))
            else:
                t = self.T()
                v = Variable(self.fresh("w"), t, self.env)
                tc = em.Forall(em.Always(em.Or(self.fx(self.pfl(t), em.VariableExp(v)), c)), v)
            pb.add_trajectory_constraint(tc)
        elif where == "oversubscription-goal":
            goals = {c: r.choice([1, 3, Fraction(1, 2)])}
            if r.random() < 0.4:
                goals[b0] = 2
            pb.add_quality_metric(upm.Oversubscription(goals, self.env))
        elif where == "temporal-oversubscription-goal":
            pb.add_quality_metric(upm.TemporalOversubscription({(self.interval(glob=True), c): r.choice([1, 4])}, self.env))
        elif where in ("event-precondition", "event-effect-condition"):
            from unified_planning.model import Event

            ev = Event(self.fresh("ev"), OrderedDict(), self.env)
            if where == "event-precondition":
                ev.add_precondition(c)
                ev.add_effect(b0, True)
            else:
                ev.add_precondition(self.fx(self.bfl(5)))
                ev.add_effect(b0, True, c)
            pb.add_event(ev)
        elif where == "process-precondition":
            from unified_planning.model import Process

            pr = Process(self.fresh("pr"), OrderedDict(), self.env)
            pr.add_precondition(c)
            if r.random() < 0.5:
                pr.add_increase_continuous_effect(self.fx(self.rfl()), 1)
            else:
                pr.add_decrease_continuous_effect(self.fx(self.rfl()), 2)
            pb.add_process(pr)
        elif where == "method-precondition":
            m, _ = self.method_and_task()
            m.add_precondition(c)
            pb.add_method(m)
        elif where == "method-constraint":
            m, _ = self.method_and_task(OrderedDict(fl1=self.tm.BoolType(), fl2=self.tm.BoolType(), x=self.T()))
            c = self.mk_static_cond(feature, *[em.ParameterExp(m.parameter(n)) for n in ("fl1", "fl2", "x")])
            m.add_constraint(c)
            pb.add_method(m)
        elif where == "task-network-constraint":
            tn = pb.task_network
            vs = [tn.add_variable(self.fresh("tv"), t) for t in (self.tm.BoolType(), self.tm.BoolType(), self.T())]
            c = self.mk_static_cond(feature, *[em.ParameterExp(v) for v in vs])
            tn.add_constraint(c)
        elif where == "agent-public-goal":
            self.ag.add_public_goal(c)
        elif where == "agent-private-goal":
            self.ag.add_private_goal(c)
        elif where == "base-condition":
            pb.add_condition(self.interval(glob=True), c)
        elif where == "activity-condition":
            act = self.activity()
            act.add_condition(self.interval(), c)
        elif where == "base-constraint":
            pb.add_constraint(c)
        elif where == "activity-constraint":
            act = self.activity()
            act.add_constraint(c)
        elif where == "base-effect-condition":
            pb.add_effect(GlobalStartTiming(r.choice([2, 4])), b0, True, c)
        elif where == "activity-effect-condition":
            act = self.activity()
            act.add_effect(r.choice([act.start, act.end]), b0, True, c)
        else:
            raise Skip(f"no cond plant for {where}")
        self.log.append(f"{feature} at {where}: {c}")

    # ---- planting an effect at a position --------------------------------------------------------
    def effect_target(self, where):
        """returns add(kind, fluent_exp, value, condition, forall) for a fresh container at `where`."""
        pb, r = self.pb, self.rng

        def generic(obj, t=None):
            pre = () if t is None else (t,)

            def add(kind, fe, val, cond=True, forall=tuple()):
                if kind == "assign":
                    (obj.add_timed_effect if obj is pb else obj.add_effect)(*pre, fe, val, cond, forall)
                elif kind == "inc":
                    obj.add_increase_effect(*pre, fe, val, cond, forall)
                else:
                    obj.add_decrease_effect(*pre, fe, val, cond, forall)

            return add

        def noforall(obj, t):
            def add(kind, fe, val, cond=True, forall=tuple()):
                if forall:
                    raise Skip("no forall effects here")
                if kind == "assign":
                    obj.add_effect(t, fe, val, cond)
                elif kind == "inc":
                    obj.add_increase_effect(t, fe, val, cond)
                else:
                    obj.add_decrease_effect(t, fe, val, cond)

            return add

        if where == "action-effect":
            a = self.new_inst()
            self.add_action(a)
            return generic(a)
        if where == "durative-effect":
            a = self.new_dur()
            self.add_action(a)
            return generic(a, r.choice([StartTiming(), EndTiming()]))
        if where == "timed-effect":
            return generic(pb, GlobalStartTiming(r.choice([1, 2, 6])))
        if where == "event-effect":
            from unified_planning.model import Event

            ev = Event(self.fresh("ev"), OrderedDict(), self.env)
            ev.add_precondition(self.fx(self.bfl(5)))
            pb.add_event(ev)
            return generic(ev)
        if where == "base-effect":
            return noforall(pb, GlobalStartTiming(r.choice([2, 3])))
        if where == "activity-effect":
            act = self.activity()
            return noforall(act, r.choice([act.start, act.end]))
        raise Skip(f"no effect plant for {where}")

    def plant_effect(self, where, feature):
        em, r = self.em, self.rng
        if where.endswith("-forall-var"):
            # typing through the variable of a forall effect
            base = where[: -len("-forall-var")]
            t = self.T(hier=(feature == "HIERARCHICAL_TYPING"))
            add = self.effect_target(base)
            v = Variable(self.fresh("fv"), t, self.env)
            # the fluent ranges over the root type T0, the variable over t (T0 or its subtype S0): a hierarchical type can
            # then occur at the forall variable only
            p = self.pfl(self.T())
            add("assign", self.fx(p, em.VariableExp(v)), True, True, (v,))
            self.log.append(f"{feature} at {where}")
            return
        value_pos = where.endswith("-value")
        add = self.effect_target(where[: -len("-value")] if value_pos else where)
        b0 = self.fx(self.bfl(0))
        if feature == "CONDITIONAL_EFFECTS":
            add("assign", b0, True, self.atom("local", 1))
        elif feature == "FORALL_EFFECTS":
            t = self.T()
            v = Variable(self.fresh("fv"), t, self.env)
            add("assign", self.fx(self.pfl(t), em.VariableExp(v)), True, True, (v,))
        elif feature == "INCREASE_EFFECTS":
            add("inc", self.fx(self.nfl()), r.choice([1, 2]))
        elif feature == "DECREASE_EFFECTS":
            add("dec", self.fx(self.nfl()), r.choice([1, 3]))
        elif feature == "FLUENTS_IN_BOOLEAN_ASSIGNMENTS":
            x = r.random()
            if x < 0.5:
                add("assign", b0, self.atom("local", 1))
            else:
                add("assign", b0, em.LT(self.fx(self.nfl()), 3))
        elif feature == "FLUENTS_IN_NUMERIC_ASSIGNMENTS":
            n = self.fx(self.nfl())
            x = r.random()
            if x < 0.5:
                add("assign", n, em.Plus(self.fx(self.nfl(1)), 1))
            else:
                add("assign", n, em.Times(n, 2))
        elif feature == "FLUENTS_IN_OBJECT_ASSIGNMENTS":
            add("assign", self.fx(self.ofl()), self.fx(self.ofl(1)))
        else:
            raise ValueError(feature)
        self.log.append(f"{feature} at {where}")

    def pfl_typed(self, t):
        """unary Boolean fluent over exactly type t."""
        return self.pfl(t)

    # ---- typing / parameters -------------------------------------------------------------------
    def plant_param_or_type(self, where, feature):
        """feature: a TYPING feature or an *_ACTION_PARAMETERS / *_FLUENT_PARAMETERS feature at a parameter/type position."""
        em, tm, pb, r = self.em, self.tm, self.pb, self.rng
        if feature in ("FLAT_TYPING", "HIERARCHICAL_TYPING"):
            t = self.T(hier=(feature == "HIERARCHICAL_TYPING"))
        elif feature.startswith("BOOL_"):
            t = tm.BoolType()
        elif feature.startswith("BOUNDED_INT_"):
            t = tm.IntType(r.choice([0, 1]), r.choice([2, 3]))
        elif feature.startswith("UNBOUNDED_INT_"):
            t = r.choice([tm.IntType(), tm.IntType(0, None), tm.IntType(None, 7)])
        elif feature.startswith("REAL_"):
            t = r.choice([tm.RealType(), tm.RealType(0, 5)])
        else:
            raise ValueError(feature)
        params = OrderedDict(x=t)
        b0 = None
        if where == "object":
            if not t.is_user_type():
                raise Skip("objects have user types")
            self.obj(t)
        elif where in ("fluent-param", "env-fluent-param", "agent-fluent-param"):
            fl = Fluent(self.fresh("g"), tm.BoolType(), params, self.env)
            w = {"env-fluent-param": "env", "agent-fluent-param": "agent"}.get(where)
            self.add_fluent(fl, False, where=w)
        elif where in ("fluent-type", "env-fluent-type", "agent-fluent-type"):
            if not t.is_user_type():
                raise Skip("handled by plant_fluent_type")
            fl = Fluent(self.fresh("g"), t, OrderedDict(), self.env)
            w = {"env-fluent-type": "env", "agent-fluent-type": "agent"}.get(where)
            # no default: an object of the type need not exist
            self.add_fluent(fl, None, where=w)
            if r.random() < 0.5:
                o = self.obj(t)
                if self.pc == "ma":
                    self.pb.set_initial_value(self.fx(fl, ctx="global"), o)
                else:
                    self.pb.set_initial_value(fl, o)
        elif where in ("action-param", "sensing-param"):
            a = self.new_inst(params, sensing=(where == "sensing-param"))
            a.add_effect(self.fx(self.bfl(0)), True)
            self.add_action(a)
        elif where == "durative-param":
            a = self.new_dur(params)
            a.add_effect(EndTiming(), self.fx(self.bfl(0)), True)
            self.add_action(a)
        elif where == "event-param":
            from unified_planning.model import Event

            ev = Event(self.fresh("ev"), params, self.env)
            ev.add_precondition(self.fx(self.bfl(5)))
            ev.add_effect(self.fx(self.bfl(0)), True)
            pb.add_event(ev)
        elif where == "process-param":
            from unified_planning.model import Process

            pr = Process(self.fresh("pr"), params, self.env)
            pr.add_precondition(self.fx(self.bfl(5)))
            pr.add_increase_continuous_effect(self.fx(self.rfl()), 1)
            pb.add_process(pr)
        elif where == "method-param":
            m, _ = self.method_and_task(params)
            pb.add_method(m)
        elif where == "task-param":
            pb.add_task(self.fresh("task"), x=t)
        elif where == "task-network-variable":
            pb.task_network.add_variable(self.fresh("tv"), t)
        elif where == "activity-param":
            act = self.activity()
            act.add_parameter(self.fresh("ap"), t)
        elif where == "base-variable":
            pb.add_variable(self.fresh("bv"), t)
        else:
            raise Skip(f"no param/type plant for {where}")
        self.log.append(f"{feature} at {where}")

    def plant_fluent_type(self, where, feature):
        tm, r = self.tm, self.rng
        w = {"env-fluent-type": "env", "agent-fluent-type": "agent"}.get(where)
        if feature == "INT_FLUENTS":
            t, d = tm.IntType(), 0
        elif feature == "REAL_FLUENTS":
            t, d = tm.RealType(), Fraction(1, 2)
        elif feature == "OBJECT_FLUENTS":
            t = self.T()
            d = self.obj(t)
        elif feature == "BOUNDED_TYPES":
            t, d = r.choice([(tm.IntType(0, 5), 1), (tm.RealType(0, None), 1), (tm.IntType(None, 9), 2), (tm.RealType(-1, 1), 0)])
        else:
            raise ValueError(feature)
        fl = Fluent(self.fresh("h"), t, OrderedDict(), self.env)
        self.add_fluent(fl, d, where=w)
        # half of the time the fluent is also used somewhere
        if r.random() < 0.5 and self.pc not in ("sched",) and not t.is_user_type():
            a = self.new_inst()
            a.add_precondition(self.em.GE(self.fx(fl), 0))
            a.add_effect(self.fx(self.bfl(0)), True)
            self.add_action(a)
        self.log.append(f"{feature} at {where}")

    # ---- the rest --------------------------------------------------------------------------------
    def plant_misc(self, where, feature):
        em, pb, r, tm = self.em, self.pb, self.rng, self.tm
        b0 = self.fx(self.bfl(0))
        if where in ("process-effect", "durative-continuous-effect"):
            inc = feature == "INCREASE_CONTINUOUS_EFFECTS"
            rf = self.fx(self.rfl())
            if where == "process-effect":
                from unified_planning.model import Process

                pr = Process(self.fresh("pr"), OrderedDict(), self.env)
                pr.add_precondition(self.fx(self.bfl(5)))
                (pr.add_increase_continuous_effect if inc else pr.add_decrease_continuous_effect)(rf, r.choice([1, 2]))
                pb.add_process(pr)
            else:
                a = self.new_dur()
                iv = ClosedTimeInterval(StartTiming(), EndTiming())
                (a.add_increase_continuous_effect if inc else a.add_decrease_continuous_effect)(iv, rf, r.choice([1, 2]))
                self.add_action(a)
        elif where in ("durative-duration", "activity-duration"):
            n = self.fx(self.nfl())
            lo, hi = (n, n) if r.random() < 0.5 else (em.Int(1), em.Plus(n, 2))
            if where == "durative-duration":
                a = DurativeAction(self.fresh("dur"), OrderedDict(), self.env)
                a.set_closed_duration_interval(lo, hi)
                a.add_effect(EndTiming(), b0, True)
                self.add_action(a)
            else:
                act = self.activity()
                act.set_closed_duration_interval(lo, hi) if hasattr(act, "set_closed_duration_interval") else act.set_fixed_duration(n)
        elif where == "timed-effect" and feature == "TIMED_EFFECTS":
            pb.add_timed_effect(GlobalStartTiming(r.choice([1, 4])), b0, True)
        elif where == "timed-goal" and feature == "TIMED_GOALS":
            pb.add_timed_goal(self.interval(glob=True), b0)
        elif where == "base-effect" and feature == "TIMED_EFFECTS":
            pb.add_effect(GlobalStartTiming(r.choice([1, 4])), b0, True)
        elif where == "base-condition" and feature == "TIMED_GOALS":
            pb.add_condition(self.interval(glob=True), b0)
        elif where == "state-invariant":
            pb.add_state_invariant(em.Implies(self.atom("local", 1), b0) if r.random() < 0.3 else em.And(b0, self.atom("local", 1)) if r.random() < 0.5 else b0)
        elif where == "trajectory-constraint":
            pb.add_trajectory_constraint(r.choice([em.Sometime(b0), em.AtMostOnce(b0), em.SometimeBefore(b0, self.atom("local", 1))]))
        elif where == "wrapped-state-invariant":
            pb.add_trajectory_constraint(em.And(em.Always(b0), em.Always(self.atom("local", 1))))
        elif where == "metric":
            if feature == "ACTIONS_COST":
                a = self.new_inst()
                a.add_effect(b0, True)
                self.add_action(a)
                pb.add_quality_metric(upm.MinimizeActionCosts({a: em.Int(r.choice([1, 2]))}, r.choice([None, em.Int(1)]), self.env))
            elif feature == "FINAL_VALUE":
                n = self.fx(self.nfl())
                pb.add_quality_metric(
                    upm.MinimizeExpressionOnFinalState(n, self.env) if r.random() < 0.5 else upm.MaximizeExpressionOnFinalState(n, self.env)
                )
            elif feature == "MAKESPAN":
                pb.add_quality_metric(upm.MinimizeMakespan(self.env))
            elif feature == "PLAN_LENGTH":
                pb.add_quality_metric(upm.MinimizeSequentialPlanLength(self.env))
            elif feature == "OVERSUBSCRIPTION":
                pb.add_quality_metric(upm.Oversubscription({b0: r.choice([1, Fraction(5, 2)])}, self.env))
            elif feature == "TEMPORAL_OVERSUBSCRIPTION":
                pb.add_quality_metric(upm.TemporalOversubscription({(self.interval(glob=True), b0): 2}, self.env))
            else:
                raise ValueError(feature)
        elif where == "metric-action-cost":
            a = self.new_inst()
            a.add_effect(b0, True)
            self.add_action(a)
            cost = em.Plus(self.fx(self.nfl(2)), 1) if feature == "FLUENTS_IN_ACTIONS_COST" else em.Int(3)
            pb.add_quality_metric(upm.MinimizeActionCosts({a: cost}, None, self.env))
        elif where == "metric-oversubscription":
            pb.add_quality_metric(upm.Oversubscription({b0: 4}, self.env))
        elif where.startswith("initial-state-"):
            partial = where.endswith("partially-set")
            numeric = feature == "UNDEFINED_INITIAL_NUMERIC"
            kind = "num" if numeric else r.choice(["bool", "obj"])
            if kind == "num":
                ft = r.choice([tm.IntType(), tm.RealType(), tm.IntType(0, 4)])
                val = 1
            elif kind == "bool":
                ft, val = tm.BoolType(), r.choice([True, False])
            else:
                ft = self.T()
                val = self.obj(ft)
            if partial:
                t = self.T()
                self.obj(t, 0)
                self.obj(t, 1)
                fl = Fluent(self.fresh("u"), ft, OrderedDict(x=t), self.env)
                pb.add_fluent(fl)
                pb.set_initial_value(fl(self.obj(t, 0)), val)
            else:
                fl = Fluent(self.fresh("u"), ft, OrderedDict(), self.env)
                pb.add_fluent(fl)
        else:
            raise Skip(f"no misc plant for {where}/{feature}")
        self.log.append(f"{feature} at {where}")

    # ---- dispatcher ------------------------------------------------------------------------------
    def plant(self, spec):
        from vk.checks import c10_positions as P

        pc, where, feature = spec
        assert pc == self.pc
        if feature in P.COND:
            self.plant_cond(where, feature)
        elif feature in P.EFF or feature in P.ASSIGN:
            self.plant_effect(where, feature)
        elif where.endswith("-forall-var"):
            self.plant_effect(where, feature)
        elif feature in P.TYPING or feature in P.APARAM or feature in P.FPARAM:
            self.plant_param_or_type(where, feature)
        elif feature in P.FTYPE and where.endswith("-type"):
            self.plant_fluent_type(where, feature)
        else:
            self.plant_misc(where, feature)

    # ---- mutations of an already evaluated problem (history cases) ---------------------------------------------------
    def objects_of(self, t):
        out = []
        for o in self.pb.all_objects:
            x = o.type
            while x is not None:
                if x == t:
                    out.append(o)
                    break
                x = x.father
        return out

    def ground_args(self, fl):
        """all argument tuples of fl (python values / Objects), or None when a parameter type is infinite."""
        import itertools

        doms = []
        for p in fl.signature:
            t = p.type
            if t.is_user_type():
                doms.append(self.objects_of(t))
            elif t.is_bool_type():
                doms.append([True, False])
            elif t.is_int_type() and t.lower_bound is not None and t.upper_bound is not None:
                doms.append(list(range(t.lower_bound, t.upper_bound + 1)))
            else:
                return None
        return list(itertools.product(*doms))

    def value_for(self, t):
        r = self.rng
        if t.is_bool_type():
            return r.random() < 0.5
        if t.is_int_type() or t.is_real_type():
            lo, hi = t.lower_bound, t.upper_bound
            return lo if lo is not None else (hi if hi is not None else r.choice([0, 1, 2]))
        objs = self.objects_of(t)
        return r.choice(objs) if objs else None

    def explicit_fluent(self):
        """a fluent *without default* whose ground instances are all initialised explicitly (classes with one initial state)."""
        tm, r, pb = self.tm, self.rng, self.pb
        if self.pc == "ma":
            raise Skip("initial values of multi-agent problems are not judged")
        t = self.T(hier=r.random() < 0.25)
        for k in range(r.choice([1, 2, 2])):
            self.obj(t, k)
        sig = OrderedDict(x=t)
        x = r.random()
        if x < 0.15:
            sig["y"] = tm.BoolType()
        elif x < 0.3:
            sig["y"] = self.T()
        elif x < 0.4:
            sig["y"] = tm.IntType(0, 1)
        ft = r.choice([tm.BoolType(), tm.BoolType(), tm.IntType(), tm.RealType(), tm.IntType(0, 6), self.T()])
        fl = Fluent(self.fresh("e"), ft, sig, self.env)
        pb.add_fluent(fl)
        n = 0
        for args in self.ground_args(fl):
            v = self.value_for(ft)
            if v is not None:
                pb.set_initial_value(fl(*args), v)
                n += 1
        self.log.append(f"fluent {fl.name} without default, {n} ground instances initialised explicitly")
        return fl

    def add_new_object(self, init_new=False):
        """add_object of a type the problem already uses; the new state variables get no initial value unless init_new."""
        r, pb = self.rng, self.pb
        types = sorted(pb.user_types, key=lambda t: t.name)
        t = r.choice(types) if types else self.T()
        o = Object(self.fresh("no"), t, self.env)
        pb.add_object(o)
        n = 0
        if init_new and self.pc != "ma":
            defaults = pb.fluents_defaults
            have = set(pb.explicit_initial_values)
            for fl in pb.fluents:
                if fl in defaults:
                    continue
                for args in self.ground_args(fl) or ():
                    if any(a is o for a in args):
                        fe = fl(*args)
                        v = self.value_for(fl.type)
                        if v is not None and fe not in have:
                            pb.set_initial_value(fe, v)
                            n += 1
        self.log.append(f"add_object {o.name}: {t.name}" + (f", {n} new state variables initialised" if init_new else ""))
        return "add-object-initialised" if init_new else "add-object"

    def set_some_initial_value(self):
        """set_initial_value of one ground fluent (preferably one without value)."""
        r, pb = self.rng, self.pb
        if self.pc == "ma":
            raise Skip("initial values of multi-agent problems are not judged")
        have = set(pb.explicit_initial_values)
        cands, other = [], []
        for fl in pb.fluents:
            for args in (self.ground_args(fl) or ())[:12]:
                fe = fl(*args)
                (other if fe in have or fl in pb.fluents_defaults else cands).append(fe)
        pool = cands if cands and r.random() < 0.8 else (other or cands)
        if not pool:
            raise Skip("no ground fluent")
        fe = r.choice(pool)
        v = self.value_for(fe.fluent().type)
        if v is None:
            raise Skip("no object of the fluent's type")
        pb.set_initial_value(fe, v)
        self.log.append(f"set_initial_value {fe} := {v}")
        return "set-initial-value"

    def add_second_agent(self):
        """ma: add the second agent (with a fluent of its own and a same-named fluent of another type) after an evaluation."""
        r = self.rng
        if self.pc != "ma" or any(a.name == self.ag2.name for a in self.pb.agents):
            raise Skip("second agent already added")
        t, sig, d = self.shadow_type(True)
        g = Fluent(self.fresh("k"), t, sig, self.env)
        self.ag2.add_fluent(g, **({} if d is None else {"default_initial_value": d}))
        self.owner[g] = self.ag2
        sh = self.shadow_fluents(rich=True, k=1)
        self.pb.add_agent(self.ag2)
        self.log.append(f"add_agent A1 with {g.name}: {t}" + ("; " + "; ".join(sh) if sh else ""))
        return "add-agent"

    # ---- multi-agent name spaces -------------------------------------------------------------------
    def shadow_type(self, rich):
        """(type, signature, default) of a same-named fluent declared in another name space."""
        tm, r = self.tm, self.rng
        if not rich:
            return tm.BoolType(), OrderedDict(), False
        t, d = r.choice(
            [
                (tm.BoolType(), False),
                (tm.IntType(), 0),
                (tm.RealType(), 0),
                (tm.IntType(0, 4), 1),
                (tm.RealType(0, None), 1),
                (self.T(), None),
                (self.T(hier=True), None),
            ]
        )
        sig = OrderedDict()
        x = r.random()
        if x < 0.15:
            sig["x"] = tm.BoolType()
        elif x < 0.3:
            sig["x"] = tm.IntType(0, 2)
        elif x < 0.45:
            sig["x"] = self.T(hier=r.random() < 0.4)
        return t, sig, d

    def shadow_fluents(self, rich, k=None):
        """ma: fluents are name-spaced per agent: declare, in the *other* agent, fluents with the names of already declared
        agent fluents but a different type / signature.  (Environment fluents are left alone: Agent.add_fluent rejects the
        name of an environment fluent.)  Returns what was done."""
        r = self.rng
        done = []
        spaces = [("A0", self.ag), ("A1", self.ag2)]
        decl = [(sn, f) for sn, sp in spaces for f in sp.fluents]
        if not decl:
            return done
        r.shuffle(decl)
        k = k or r.choice([1, 1, 2, 3])
        for sn, f in decl:
            if len(done) >= k:
                break
            cands = [(n, sp) for n, sp in spaces if n != sn and not any(g.name == f.name for g in sp.fluents)]
            if not cands:
                continue
            tn, sp = r.choice(cands)
            for _ in range(4):
                t, sig, d = self.shadow_type(rich)
                if t != f.type or [p.type for p in f.signature] != list(sig.values()):
                    break
            else:
                continue
            g = Fluent(f.name, t, sig, self.env)
            kw = {} if d is None else {"default_initial_value": d}
            (sp.add_public_fluent if r.random() < 0.5 else sp.add_private_fluent)(g, **kw)
            self.owner[g] = sp
            self.shadows.append((tn, g))
            done.append(f"{tn}.{f.name}: {t}{list(sig.values()) or ''} shadows {sn}.{f.name}: {f.type}")
        return done

    def finish(self):
        """minimal filling that every class needs to be a usable problem."""
        r = self.rng
        if self.pc == "ma":
            if not self.ag.actions or r.random() < 0.3:
                a = self.new_inst()
                a.add_effect(self.fx(self.bfl(0)), True)
                self.ag.add_action(a)
            second = r.random() < 0.5 and not self.defer_second
            if second:
                g = Fluent("g_other", self.tm.BoolType(), OrderedDict(), self.env)
                self.ag2.add_fluent(g, default_initial_value=False)
            # same-named fluents of different types in different name spaces; a bare (single-plant) problem only gets
            # Boolean 0-ary ones, which contribute no feature of their own
            if r.random() < 0.45 and not self.defer_second:
                sh = self.shadow_fluents(rich=self.rich_shadows and r.random() < 0.6)
                if sh:
                    self.log.append("same-named fluents: " + "; ".join(sh))
            if second or self.ag2.fluents:
                a = InstantaneousAction("other", OrderedDict(), self.env)
                for g in self.ag2.fluents:
                    if g.type.is_bool_type() and not g.signature:
                        a.add_effect(self.em.FluentExp(g), True)
                if a.effects:
                    self.ag2.add_action(a)
            # both agent orders
            agents = [self.ag] + ([self.ag2] if (second or self.ag2.fluents) else [])
            if len(agents) == 2 and r.random() < 0.5:
                agents.reverse()
            for ag in agents:
                self.pb.add_agent(ag)
            self.log.append("agents added in order " + ",".join(ag.name for ag in agents))
        elif self.pc == "htn":
            if r.random() < 0.5:
                t = self.pb.add_task(self.fresh("task"))
                self.pb.task_network.add_subtask(t)
        elif self.pc == "cont":
            if r.random() < 0.5:
                self.pb.add_unknown_initial_constraint(self.fx(self.bfl(6)))
        if self.pc in ("prob", "htn", "cont") and r.random() < 0.5 and not self.pb.goals:
            self.pb.add_goal(self.fx(self.bfl(0)))
        return self.pb


def build(rng, env, specs):
    """specs: non-empty list of plants for one problem class. Returns (problem, log, skipped)."""
    b = B(rng, env, specs[0][0])
    b.rich_shadows = len(specs) > 1
    skipped = []
    for i, s in enumerate(specs):
        try:
            b.plant(s)
        except Skip as e:
            skipped.append((s, str(e)))
    return b.finish(), b.log, skipped

"""Per-compiler problem profiles, bias injections and goal re-targeting for C06/C07 (owner: agent "compilers").

`make_case(key, comp_name, tier)` returns a Case whose problem lies inside the compiler's `supports()` (checked by the caller
with the library's own test) and is small enough for the exhaustive oracle.  The recipe in the Case is *final*: instantiating
it again in a fresh environment gives the same problem (replay).

Bias injections (DESIGN §5 C06/C07 workloads) append hand-shaped constructs to a randomly generated recipe:
    cerm      two/three conditional assignments of different constants to one numeric fluent (+ an unconditional effect)
    dcrm      `if a or b then x += 1`; constant tautological / contradictory conjuncts in preconditions; disjunctive goals
    ncrm      `f := false; if c then f := true` with a reader of `not f`
    tcrm      fluent-valued Boolean assignment `f := g` on a fluent watched by a trajectory constraint
    grounder  static Boolean precondition with per-fluent default true / false / undefined; one parameter used twice;
              static binary / ternary relation with random asymmetric initial values as a precondition over 2-3 different
              parameters (any argument order, relation possibly twice) of a token-moving action (inj_grounder_relation)
    qurm      nested quantifier in a precondition / quantified conditional forall effect
    utfr      object fluent used as an argument of another fluent
"""
import copy

from vk.gen.problem import G

# ---- profiles --------------------------------------------------------------------------------------------
_BASE = dict(undefined_init=0.0, invariants=0.0, traj=0.0, interpreted_functions=0.0, max_actions=3, max_objects=3, max_fluents=4, div=False)

PROFILES = {
    "grounder": dict(_BASE, undefined_init=0.2, invariants=0.15, traj=0.15, max_params=2),
    "cerm": dict(_BASE, invariants=0.15, max_params=1),
    "dcrm": dict(_BASE, max_params=1),
    "ncrm": dict(_BASE, invariants=0.2, traj=0.2, max_params=1),
    "qurm": dict(_BASE, invariants=0.2, traj=0.2, max_params=1),
    # no trajectory constraints / state invariants for utfr: its expression walker raises NotImplementedError on Always/
    # Sometime/... although supported_kind() lists them (a "compilers succeed" = C08 matter)
    "utfr": dict(_BASE, invariants=0.0, traj=0.0, max_params=1),
    "btrm": dict(_BASE, invariants=0.15, max_params=1),
    "sirm": dict(_BASE, invariants=1.0, traj=0.3, max_params=1),
    "tcrm": dict(_BASE, traj=1.0, invariants=0.2, numeric=False, object_fluents=False, forall_effects=False, max_params=1),
    "uinr": dict(_BASE, undefined_init=0.3, forall_effects=False, object_fluents=False, max_params=1),
}


MAX_INSTANCES = 14  # = BOUNDS["quick"]["max_inst_o"] of vk/mon/compilers_harness.py


class Case:
    __slots__ = ("key", "comp", "rec", "feats", "tags")

    def __init__(self, key, comp, rec, feats, tags):
        self.key, self.comp, self.rec, self.feats, self.tags = key, comp, rec, feats, tags


# ---- helpers on recipes ----------------------------------------------------------------------------------
def _bool_fluents(rec, arity=None):
    return [f for f in rec["fluents"] if f["type"] == "bool" and (arity is None or len(f["sig"]) == arity)]


def _num_fluents(rec, arity=0):
    return [f for f in rec["fluents"] if f["type"] != "bool" and f["type"][0] in ("int", "real") and len(f["sig"]) == arity]


def _add_fluent(rec, name, tp, default=None, sig=None, init=None):
    if any(f["name"] == name for f in rec["fluents"]):
        return next(f for f in rec["fluents"] if f["name"] == name)
    f = {"name": name, "type": tp, "sig": sig or [], "default": default}
    rec["fluents"].append(f)
    if init is not None:
        rec["init"].append([["f", name], init])
    return f


def _bool_atom(rng, rec, exclude=()):
    """A ground/0-ary Boolean fluent expression (possibly fresh)."""
    c = [f for f in _bool_fluents(rec, 0) if f["name"] not in exclude]
    if c and rng.random() < 0.8:
        return ["f", rng.choice(c)["name"]]
    name = f"b{len(rec['fluents'])}"
    _add_fluent(rec, name, "bool", default=["b", rng.random() < 0.5])
    return ["f", name]


def _toggle_action(rec, fe, name):
    """action that flips a 0-ary Boolean fluent (makes injected conditions reachable both ways)."""
    rec["actions"].append(
        {
            "name": name,
            "params": [],
            "pre": [],
            "effects": [
                {"kind": "assign", "fluent": fe, "value": ["b", True], "cond": ["not", fe], "forall": []},
                {"kind": "assign", "fluent": fe, "value": ["b", False], "cond": fe, "forall": []},
            ],
        }
    )


def _setter_action(rec, fe, val, name):
    rec["actions"].append({"name": name, "params": [], "pre": [], "effects": [{"kind": "assign", "fluent": fe, "value": ["b", val], "cond": None, "forall": []}]})


def _pick_action(rng, rec, max_params=None):
    acts = [a for a in rec["actions"] if max_params is None or len(a["params"]) <= max_params]
    return rng.choice(acts) if acts else None


# ---- injections -------------------------------------------------------------------------------------------
def inj_cerm(rng, rec, tags):
    """conflicting conditional assignments on one numeric fluent; > 2 conditional effects."""
    n = _add_fluent(rec, "cn", ["int", None, None], default=["i", 0])
    c1 = _bool_atom(rng, rec)
    c2 = _bool_atom(rng, rec, exclude=(c1[1],))
    fe = ["f", "cn"]
    effs = [
        {"kind": "assign", "fluent": fe, "value": ["i", 1], "cond": c1, "forall": []},
        {"kind": "assign", "fluent": fe, "value": ["i", 2], "cond": c2, "forall": []},
    ]
    if rng.random() < 0.5:
        c3 = _bool_atom(rng, rec)
        effs.append({"kind": "assign", "fluent": ["f", _bool_atom(rng, rec)[1]], "value": ["b", True], "cond": ["not", c3], "forall": []})
        tags.add("powerset>2")
    if rng.random() < 0.6:
        # an unconditional effect, so that the "no conditional effect fires" variant still matters
        u = _add_fluent(rec, "cu", ["int", None, None], default=["i", 0])
        effs.append({"kind": "inc", "fluent": ["f", "cu"], "value": ["i", 1], "cond": None, "forall": []})
        tags.add("uncond+cond")
    rec["actions"].append({"name": "acx", "params": [], "pre": [], "effects": effs})
    if rng.random() < 0.7:
        _setter_action(rec, c1, True, "set1")
        _setter_action(rec, c2, True, "set2")
    tags.add("conflicting-conditional-assignments")


def inj_dcrm(rng, rec, tags):
    x = rng.random()
    if x < 0.45:
        n = _add_fluent(rec, "dn", ["int", None, None], default=["i", 0])
        a, b = _bool_atom(rng, rec), _bool_atom(rng, rec)
        eff = {"kind": rng.choice(["inc", "inc", "dec"]), "fluent": ["f", "dn"], "value": ["i", rng.choice([1, 2])], "cond": ["or", a, b], "forall": []}
        act = _pick_action(rng, rec) if rng.random() < 0.5 else None
        if act is None:
            act = {"name": "adx", "params": [], "pre": [], "effects": []}
            rec["actions"].append(act)
        act["effects"].append(eff)
        if rng.random() < 0.6:
            _setter_action(rec, a, True, "seta")
            _setter_action(rec, b, True, "setb")
        tags.add("disjunctive-conditional-increase")
    elif x < 0.8:
        act = _pick_action(rng, rec)
        if act is not None:
            k = rng.random()
            if k < 0.4:
                act["pre"].append(["and", ["le", ["i", 1], ["i", 2]], ["le", ["i", 2], ["i", 3]]])
                tags.add("tautological-constant-conjunction")
            elif k < 0.7:
                act["pre"].append(["and", ["le", ["i", 1], ["i", 2]], _bool_atom(rng, rec)])
                tags.add("tautological-constant-conjunct")
            elif k < 0.85:
                act["pre"].append(["or", ["lt", ["i", 2], ["i", 1]], _bool_atom(rng, rec)])
                tags.add("contradictory-constant-disjunct")
            else:
                act["pre"].append(["or", ["and", _bool_atom(rng, rec), ["le", ["i", 1], ["i", 2]]], _bool_atom(rng, rec)])
                tags.add("tautological-conjunct-in-disjunct")
    else:
        rec["goals"] = [["or"] + [g for g in rec["goals"]] + [_bool_atom(rng, rec)]]
        tags.add("disjunctive-goal")


def inj_ncrm(rng, rec, tags):
    subs = [(n, fa) for n, fa in rec["types"] if fa is not None]
    if subs and rng.random() < 0.35:
        # negated equality between an object of a subtype and a parameter of its supertype
        sub, sup = rng.choice(subs)
        objs = [o for o, ot in rec["objects"] if _is_sub(rec, ot[1], sub)]
        if objs:
            o = rng.choice(objs)
            eq = ["eq", ["o", o], ["p", "y0"]] if rng.random() < 0.6 else ["eq", ["p", "y0"], ["o", o]]
            g = _bool_atom(rng, rec)
            rec["actions"].append({"name": "ane", "params": [["y0", ["user", sup]]], "pre": [["not", eq]], "effects": [{"kind": "assign", "fluent": g, "value": ["b", True], "cond": None, "forall": []}]})
            tags.add("negated-equality-across-type-hierarchy")
            return
    f = _bool_atom(rng, rec)
    c = _bool_atom(rng, rec, exclude=(f[1],))
    rec["actions"].append(
        {
            "name": "anx",
            "params": [],
            "pre": [],
            "effects": [
                {"kind": "assign", "fluent": f, "value": ["b", False], "cond": None, "forall": []},
                {"kind": "assign", "fluent": f, "value": ["b", True], "cond": c, "forall": []},
            ],
        }
    )
    g = _bool_atom(rng, rec, exclude=(f[1], c[1]))
    rec["actions"].append({"name": "anr", "params": [], "pre": [["not", f]], "effects": [{"kind": "assign", "fluent": g, "value": ["b", True], "cond": None, "forall": []}]})
    if rng.random() < 0.5:
        _setter_action(rec, c, True, "setc")
    if rng.random() < 0.3:
        rec["goals"].append(["not", f])
    tags.add("add-after-delete+negated-reader")


def inj_tcrm(rng, rec, tags):
    f = _bool_atom(rng, rec)
    g = _bool_atom(rng, rec, exclude=(f[1],))
    rec["actions"].append({"name": "atx", "params": [], "pre": [], "effects": [{"kind": "assign", "fluent": f, "value": g if rng.random() < 0.7 else ["not", g], "cond": None, "forall": []}]})
    k = rng.choice(["always", "sometime", "amo", "sb", "sa"])
    phi = f if rng.random() < 0.6 else ["not", f]
    if k in ("sb", "sa"):
        other = _bool_atom(rng, rec)
        tc = [k, phi, other] if rng.random() < 0.5 else [k, other, phi]
    else:
        tc = [k, phi]
    rec.setdefault("traj", []).append(tc)
    if rng.random() < 0.6:
        _toggle_action(rec, g, "tgl")
    tags.add("fluent-valued-boolean-assignment-under-traj")


def _objs_of(rec, t):
    return [o for o, ot in rec["objects"] if _is_sub(rec, ot[1], t)]


def _ensure_objects(rng, rec, t, n):
    """Give type t at least n objects (own or inherited).  Fluents without a default that are fully initialised keep being
    fully initialised: the new ground fluents get the value of a random initialised sibling."""
    import itertools

    new = []
    while len(_objs_of(rec, t)) < n:
        o = f"ro{len(rec['objects'])}"
        rec["objects"].append([o, ["user", t]])
        new.append(o)
    if not new:
        return
    for f in rec["fluents"]:
        if f["default"] is not None or not f["sig"]:
            continue
        donors = [iv for iv in rec["init"] if iv[0][1] == f["name"]]
        have = {str(iv[0]) for iv in donors}
        if not donors:
            continue
        for args in itertools.product(*[_objs_of(rec, pt[1]) for _, pt in f["sig"]]):
            fe = ["f", f["name"]] + [["o", a] for a in args]
            if any(a in new for a in args) and str(fe) not in have:
                rec["init"].append([fe, copy.deepcopy(rng.choice(donors)[1])])


def inj_grounder_relation(rng, rec, tags):
    """A static Boolean relation of arity 2/3 with random (in general asymmetric) initial values, per-fluent default
    true / false / undefined, used as a positive precondition over two or three *different* parameters (arguments in any
    order, a parameter possibly twice, possibly the relation twice with permuted arguments, top-level or inside a
    conjunction) of an action that moves a token -- a dynamic Boolean fluent -- from its first to its last parameter, so that
    plans of length 2-3 need specific groundings (a walk in the relation)."""
    import itertools

    t = rng.choice(rec["types"])[0]
    _ensure_objects(rng, rec, t, rng.choice([2, 2, 3, 3, 3]))
    objs = _objs_of(rec, t)
    arity = rng.choice([2, 3]) if len(objs) <= 2 else 2  # 3^3 ground fluents would exceed the oracle's size cap
    mode = rng.choice(["true", "false", "false", "undef"])
    dflt = {"true": ["b", True], "false": ["b", False], "undef": None}[mode]
    rel = "sr"
    _add_fluent(rec, rel, "bool", default=dflt, sig=[[f"x{i}", ["user", t]] for i in range(arity)])
    dens = rng.choice([0.25, 0.4, 0.55])
    n_true = 0
    tuples = list(itertools.product(objs, repeat=arity))
    for args in tuples:
        val = rng.random() < dens
        fe = ["f", rel] + [["o", a] for a in args]
        if mode == "true":
            if not val:
                rec["init"].append([fe, ["b", False]])
        elif mode == "false":
            if val:
                rec["init"].append([fe, ["b", True]])
            elif rng.random() < 0.2:
                rec["init"].append([fe, ["b", False]])
        elif val or rng.random() < 0.8:
            rec["init"].append([fe, ["b", val]])
        n_true += val
    # token: dynamic unary Boolean fluent, initially on one or two objects
    tok = "tk"
    _add_fluent(rec, tok, "bool", default=["b", False], sig=[["x0", ["user", t]]])
    for o in rng.sample(objs, rng.choice([1, 1, 2]) if len(objs) > 2 else 1):
        rec["init"].append([["f", tok, ["o", o]], ["b", True]])
    # action parameters: 2 (or 3 when the grounding stays small), of type t or of a subtype of t that has objects
    subs = [n for n, _ in rec["types"] if _is_sub(rec, n, t) and _objs_of(rec, n)]
    npar = 3 if (len(objs) == 2 and rng.random() < 0.4) else 2
    params = []
    for i in range(npar):
        pt = t if rng.random() < 0.8 else rng.choice(subs)
        params.append([f"y{i}", ["user", pt]])
    pn = [["p", p[0]] for p in params]

    def atom():
        # every position gets a parameter; at least two different parameters in most atoms
        for _ in range(6):
            args = [rng.choice(pn) for _ in range(arity)]
            if len({a[1] for a in args}) >= 2 or rng.random() < 0.15:
                break
        return ["f", rel] + args

    first = atom()
    if rng.random() < 0.5:
        first = ["f", rel] + (pn + [rng.choice(pn)])[:arity]  # the natural argument order
    conds = [first]
    if rng.random() < 0.4:
        second = atom()
        if second != first:
            conds.append(second)
            tags.add("static-relation-twice")
    holder = ["f", tok, pn[0]]
    extra = _bool_atom(rng, rec) if rng.random() < 0.25 else None
    parts = conds + [holder] + ([extra] if extra else [])
    x = rng.random()
    if x < 0.4:
        pre = parts
    elif x < 0.7:
        pre = [["and"] + parts]
    else:
        rng.shuffle(parts)
        pre = [["and"] + parts[:2]] + parts[2:]
    effs = [
        {"kind": "assign", "fluent": ["f", tok, pn[0]], "value": ["b", False], "cond": None, "forall": []},
        {"kind": "assign", "fluent": ["f", tok, pn[-1]], "value": ["b", True], "cond": None, "forall": []},
    ]
    if rng.random() < 0.3:
        effs.append({"kind": "assign", "fluent": _bool_atom(rng, rec), "value": ["b", True], "cond": None, "forall": []})
    # keep the problem inside the exhaustive oracle's size cap: grammar actions are dropped (last first) while the number of
    # ground action instances exceeds the cap
    def n_inst(a):
        n = 1
        for _, pt in a["params"]:
            n *= len(_objs_of(rec, pt[1])) if pt[0] == "user" else (pt[2] - pt[1] + 1)
        return n

    act = {"name": "agr", "params": params, "pre": pre, "effects": effs}
    while rec["actions"] and sum(n_inst(a) for a in rec["actions"]) + n_inst(act) > MAX_INSTANCES:
        rec["actions"].pop()
    rec["actions"].append(act)
    if rng.random() < 0.5:
        # goal candidates: the token on an object that does not hold it initially
        rec["goals"] = [["f", tok, ["o", rng.choice(objs)]]]
    tags.add(f"static-relation-precondition:arity{arity}:{mode}")
    if any(len({a[1] for a in c[2:]}) < len(c[2:]) for c in conds):
        tags.add("static-relation-param-twice")


def inj_grounder(rng, rec, tags):
    if rng.random() < 0.55:
        return inj_grounder_relation(rng, rec, tags)
    t = rng.choice(rec["types"])[0]
    x = rng.random()
    mode = rng.choice(["true", "false", "undef"])
    dflt = {"true": ["b", True], "false": ["b", False], "undef": None}[mode]
    objs = [o for o, ot in rec["objects"]]
    if x < 0.6:
        _add_fluent(rec, "st", "bool", default=dflt, sig=[["x0", ["user", t]]])
        for o, ot in rec["objects"]:
            if _is_sub(rec, ot[1], t) and rng.random() < 0.5:
                rec["init"].append([["f", "st", ["o", o]], ["b", rng.random() < 0.5]])
        act = {"name": "agx", "params": [["y0", ["user", t]]], "pre": [["f", "st", ["p", "y0"]]], "effects": []}
        tags.add("static-bool-precondition:" + mode)
    else:
        _add_fluent(rec, "st2", "bool", default=dflt, sig=[["x0", ["user", t]], ["x1", ["user", t]]])
        for o, ot in rec["objects"]:
            if _is_sub(rec, ot[1], t) and rng.random() < 0.6:
                rec["init"].append([["f", "st2", ["o", o], ["o", o]], ["b", rng.random() < 0.6]])
        act = {"name": "agx", "params": [["y0", ["user", t]]], "pre": [["f", "st2", ["p", "y0"], ["p", "y0"]]], "effects": []}
        tags.add("static-bool-precondition-param-twice:" + mode)
    tgt = _bool_atom(rng, rec)
    act["effects"].append({"kind": "assign", "fluent": tgt, "value": ["b", True], "cond": None, "forall": []})
    if rng.random() < 0.4:
        act["pre"] = [["and", act["pre"][0], _bool_atom(rng, rec)]] if rng.random() < 0.5 else act["pre"] + [_bool_atom(rng, rec)]
    rec["actions"].append(act)


def _is_sub(rec, t, sup):
    fathers = {n: f for n, f in rec["types"]}
    while t is not None:
        if t == sup:
            return True
        t = fathers.get(t)
    return False


def inj_qurm(rng, rec, tags):
    t = rng.choice(rec["types"])[0]
    p = _add_fluent(rec, "qp", "bool", default=["b", rng.random() < 0.5], sig=[["x0", ["user", t]]])
    for o, ot in rec["objects"]:
        if _is_sub(rec, ot[1], t) and rng.random() < 0.5:
            rec["init"].append([["f", "qp", ["o", o]], ["b", rng.random() < 0.5]])
    v1, v2 = ["qa", ["user", t]], ["qb", ["user", t]]
    q1, q2 = rng.choice(["exists", "forall"]), rng.choice(["exists", "forall"])
    inner = ["or", ["f", "qp", ["v"] + v2], ["eq", ["v"] + v1, ["v"] + v2]] if rng.random() < 0.5 else ["implies", ["f", "qp", ["v"] + v1], ["f", "qp", ["v"] + v2]]
    pre = [q1, [v1], [q2, [v2], inner]]
    ev = ["qe", ["user", t]]
    eff = {"kind": "assign", "fluent": ["f", "qp", ["v"] + ev], "value": ["b", rng.random() < 0.5], "cond": [rng.choice(["exists", "forall"]), [v1], ["or", ["f", "qp", ["v"] + v1], ["eq", ["v"] + v1, ["v"] + ev]]] if rng.random() < 0.6 else None, "forall": [ev]}
    rec["actions"].append({"name": "aqx", "params": [], "pre": [pre], "effects": [eff]})
    tags.add("nested-quantifier")


def inj_utfr(rng, rec, tags):
    t = rng.choice(rec["types"])[0]
    objs = [o for o, ot in rec["objects"] if _is_sub(rec, ot[1], t)]
    if not objs:
        return
    _add_fluent(rec, "uo", ["user", t], default=["o", rng.choice(objs)])
    _add_fluent(rec, "up", "bool", default=["b", rng.random() < 0.5], sig=[["x0", ["user", t]]])
    effs = [{"kind": "assign", "fluent": ["f", "up", ["f", "uo"]], "value": ["b", rng.random() < 0.6], "cond": None, "forall": []}]
    if rng.random() < 0.7:
        effs.append({"kind": "assign", "fluent": ["f", "uo"], "value": ["o", rng.choice(objs)], "cond": None if rng.random() < 0.5 else ["f", "up", ["f", "uo"]], "forall": []})
    pre = [["f", "up", ["f", "uo"]]] if rng.random() < 0.4 else ([["not", ["f", "up", ["f", "uo"]]]] if rng.random() < 0.4 else [])
    rec["actions"].append({"name": "aux", "params": [], "pre": pre, "effects": effs})
    if rng.random() < 0.5:
        rec["actions"].append({"name": "auy", "params": [["y0", ["user", t]]], "pre": [], "effects": [{"kind": "assign", "fluent": ["f", "uo"], "value": ["p", "y0"], "cond": None, "forall": []}]})
    tags.add("object-fluent-as-argument")


def fix_uinr(rng, rec, tags):
    """uinr supports undefined *numeric* initial values only: give every Boolean / object fluent a default."""
    for f in rec["fluents"]:
        if f["default"] is None and (f["type"] == "bool" or f["type"][0] == "user"):
            if f["type"] == "bool":
                f["default"] = ["b", rng.random() < 0.5]
            else:
                objs = [o for o, ot in rec["objects"] if _is_sub(rec, ot[1], f["type"][1])]
                if objs:
                    f["default"] = ["o", rng.choice(objs)]
    # an undefined *bounded* numeric fluent makes the initial state a don't-care of the reference semantics (the library's
    # simulator rejects it): undefined numeric fluents are made unbounded
    for f in rec["fluents"]:
        if f["type"] != "bool" and f["type"][0] in ("int", "real") and f["default"] is None:
            f["type"] = [f["type"][0], None, None]
    # make sure at least one numeric fluent starts undefined and can be assigned
    nums = [f for f in rec["fluents"] if f["type"] != "bool" and f["type"][0] in ("int", "real")]
    if not nums:
        nums = [_add_fluent(rec, "un", ["int", None, None])]
    f = rng.choice(nums)
    if rng.random() < 0.8:
        f["default"] = None
        f["type"] = [f["type"][0], None, None]
        rec["init"] = [iv for iv in rec["init"] if iv[0][1] != f["name"]]
        tags.add("undefined-numeric")
        if not f["sig"] and rng.random() < 0.7:
            val = ["i", rng.choice([0, 1, 2, 3])]
            eff = {"kind": "assign", "fluent": ["f", f["name"]], "value": val, "cond": None, "forall": []}
            if rng.random() < 0.4:
                eff["cond"] = _bool_atom(rng, rec)
                tags.add("conditional-assignment-to-undefined")
            rec["actions"].append({"name": "aux_set", "params": [], "pre": [], "effects": [eff]})
            g = _bool_atom(rng, rec)
            rec["actions"].append({"name": "aux_read", "params": [], "pre": [["le", ["f", f["name"]], ["i", 5]]], "effects": [{"kind": "assign", "fluent": g, "value": ["b", True], "cond": None, "forall": []}]})


INJECT = {"uinr": fix_uinr, "cerm": inj_cerm, "dcrm": inj_dcrm, "ncrm": inj_ncrm, "tcrm": inj_tcrm, "grounder": inj_grounder, "qurm": inj_qurm, "utfr": inj_utfr}
INJECT_P = {"uinr": 1.0, "cerm": 0.55, "dcrm": 0.6, "ncrm": 0.5, "tcrm": 0.5, "grounder": 0.5, "qurm": 0.4, "utfr": 0.5}


def gen_recipe(rng, comp, profile_over=None, stages=None):
    """(recipe, feature list, tag set) for compiler `comp`; for pipelines `stages` lists the component compilers."""
    prof = dict(PROFILES[comp])
    if profile_over:
        prof.update(profile_over)
    g = G(rng, prof)
    rec = g.gen()
    tags = set()
    for st in stages or [comp]:
        fn = INJECT.get(st)
        if fn and rng.random() < INJECT_P[st] / (1 if not stages else 1.5):
            fn(rng, rec, tags)
    # spare goal candidates drawn from the same grammar (used by goal re-targeting)
    spare = [g.boolean(1, {}) for _ in range(5)]
    return rec, sorted(g.feat), tags, spare


def retarget_goal(rng, pb, ctx, rec, spare, space, k, keep_p=0.5):
    """Make the problem solvable within k steps where possible: if the generated goal has no plan of length 1..k (or with
    probability 1-keep_p anyway), replace it by an expression that is false initially and true in some state reachable in
    <= k steps.  Mutates pb (clear_goals/add_goal) and rec["goals"] consistently.  Returns a tag."""
    from vk.ref import seqsem
    from vk.ref.evalx import Interp, holds
    from vk.ref.search import plans as _plans

    if space.init_status != "ok":
        return "init-not-ok"
    ps = _plans(space, k, max_plans=3)
    if any(len(p) >= 1 for p in ps.plans) and rng.random() < keep_p:
        return "kept"
    # reachable states by depth
    layers = [[space.s0]]
    seen = {space.s0}
    for d in range(k):
        nxt = []
        for sid in layers[-1]:
            for i in range(len(space.instances)):
                st, nid, _ = space.step(sid, i)
                if st == "ok" and nid not in seen:
                    seen.add(nid)
                    nxt.append(nid)
        if not nxt:
            break
        layers.append(nxt)
    if len(layers) < 2:
        return "nothing-reachable"
    s0 = space.state(space.s0)
    depth = rng.choice([d for d in range(1, len(layers)) for _ in range(d)])
    target = space.state(rng.choice(layers[depth]))
    cands = []
    for e in list(rec["goals"]) + spare:
        try:
            fe = ctx.expr(e)
        except Exception:
            continue
        try:
            if holds(fe, Interp(pb, target)) is True and holds(fe, Interp(pb, s0)) is not True:
                cands.append(e)
        except Exception:
            continue
    if cands and rng.random() < 0.7:
        goal = rng.choice(cands)
        tag = "grammar-goal"
    else:
        lits = []
        for (fn, args), v in sorted(target.items(), key=str):
            if s0.get((fn, args), None) != v:
                fe = ["f", fn] + [["o", a] for a in args]
                if not all(isinstance(a, str) for a in args):
                    continue
                if isinstance(v, bool):
                    lits.append(fe if v else ["not", fe])
                elif isinstance(v, str):
                    lits.append(["eq", fe, ["o", v]])
                else:
                    lits.append(["eq", fe, ["r", str(v)]] if rng.random() < 0.5 else ["le", ["r", str(v)], fe] if s0.get((fn, args), v) < v else ["le", fe, ["r", str(v)]])
        if not lits:
            return "no-literal"
        goal = rng.choice(lits)
        if len(lits) > 1 and rng.random() < 0.3:
            goal = ["and", goal, rng.choice(lits)]
        tag = "literal-goal"
    rec["goals"] = [goal]
    pb.clear_goals()
    pb.add_goal(ctx.expr(goal))
    space.forget_goals()
    return tag

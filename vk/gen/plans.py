"""Plans over ground instances: exhaustive up to a cap, else random; plus reference-guided executable sequences."""
from itertools import product

from vk.ref import seqsem


def all_or_sampled(rng, insts, L, cap):
    """All sequences of length 0..L over insts if their number <= cap, else the empty plan + random ones."""
    n = len(insts)
    total = sum(n**k for k in range(L + 1))
    if total <= cap:
        out = []
        for k in range(L + 1):
            out.extend(list(p) for p in product(insts, repeat=k))
        return out, True
    out = [[]]
    seen = {()}
    tries = 0
    while len(out) < cap and tries < cap * 4:
        tries += 1
        k = rng.randint(1, L)
        p = tuple(rng.randrange(n) for _ in range(k))
        if p not in seen:
            seen.add(p)
            out.append([insts[i] for i in p])
    return out, False


def executable_sequences(problem, insts, L, cap_nodes=3000, want=24):
    """Reference-guided: sequences executable under seqsem (prefix-closed DFS), split by goal status of the final state."""
    goal, nongoal = [], []
    nodes = 0
    s0 = seqsem.initial_state(problem)
    stack = [(s0, [])]
    while stack and nodes < cap_nodes:
        s, path = stack.pop()
        nodes += 1
        gs = seqsem.goal_status(problem, s)
        if gs is True and len(goal) < want:
            goal.append(path)
        elif gs is False and len(nongoal) < want:
            nongoal.append(path)
        if len(path) >= L:
            continue
        for a, args in insts:
            r = seqsem.succ(problem, s, a, args)
            if r.status == seqsem.OKAY:
                stack.append((r.state, path + [(a, args)]))
    return goal, nongoal

"""Plans over ground instances: exhaustive up to a cap, else random; plus reference-guided executable sequences."""
from itertools import product

from vk.ref import seqsem


def all_or_sampled(rng, insts, L, cap):
    """All sequences of length 0..L over insts if their number <= cap, else the empty plan + random ones."""
    n = len(insts)
    total = sum(n**k for k in range(L + 1))
    if total <= cap:
        out = []
        for k in range(L + 1):
            out.extend(list(p) for p in product(insts, repeat=k))
        return out, True
    out = [[]]
    seen = {()}
    tries = 0
    while len(out) < cap and tries < cap * 4:
        tries += 1
        k = rng.randint(1, L)
        p = tuple(rng.randrange(n) for _ in range(k))
        if p not in seen:
            seen.add(p)
            out.append([insts[i] for i in p])
    return out, False


def executable_sequences(problem, insts, L, cap_nodes=3000, want=24):
    """Reference-guided: sequences executable under seqsem (prefix-closed DFS), split by goal status of the final state."""
    goal, nongoal = [], []
    nodes = 0
    s0 = seqsem.initial_state(problem)
    stack = [(s0, [])]
    while stack and nodes < cap_nodes:
        s, path = stack.pop()
        nodes += 1
        gs = seqsem.goal_status(problem, s)
        if gs is True and len(goal) < want:
            goal.append(path)
        elif gs is False and len(nongoal) < want:
            nongoal.append(path)
        if len(path) >= L:
            continue
        for a, args in insts:
            r = seqsem.succ(problem, s, a, args)
            if r.status == seqsem.OKAY:
                stack.append((r.state, path + [(a, args)]))
    return goal, nongoal


def fluent_defaults(problem):
    """{fluent name: python value of the per-fluent default} for the fluents that have one."""
    from vk.ref.evalx import const_value

    out = {}
    for f, dv in problem.fluents_defaults.items():
        try:
            out[f.name] = const_value(dv)
        except Exception:
            pass
    return out


def toggle_walk(problem, insts, steps, rng, rs0):
    """Reference-guided executable walk that manufactures raise-then-reset histories.

    Yields nothing; returns [(action, args, Succ)] (every Succ is OKAY). The walk prefers (a) steps that put a changed ground
    fluent back to its per-fluent default (or, failing that, to its initial value), then (b) steps that leave such "reset" ground
    fluents alone, so that the reset is the LAST write when a difference-based state representation is flattened or merged;
    otherwise a changing step; otherwise any applicable step."""
    dflt = fluent_defaults(problem)
    out, s = [], rs0
    protected = set()
    for _ in range(steps):
        cands = [(a, args, r) for a, args in insts for r in [seqsem.succ(problem, s, a, args)] if r.status == seqsem.OKAY]
        if not cands:
            break
        changing = [c for c in cands if c[2].info.get("changed")]

        def resets_of(c, ref):
            return {k for k in c[2].info["changed"] if ref(k) is not None and c[2].state.get(k) == ref(k) and s.get(k) != ref(k)}

        r_def = [c for c in changing if resets_of(c, lambda k: dflt.get(k[0]))]
        r_ini = [c for c in changing if resets_of(c, lambda k: rs0.get(k))]
        quiet = [c for c in changing if not (set(c[2].info["changed"]) & protected)]
        x = rng.random()
        if r_def and x < 0.55:
            pool = r_def
        elif r_ini and x < 0.65:
            pool = r_ini
        elif quiet and x < 0.92:
            pool = quiet
        elif changing and x < 0.97:
            pool = changing
        else:
            pool = cands
        c = rng.choice(pool)
        protected -= set(c[2].info.get("changed", ()))
        protected |= resets_of(c, lambda k: dflt.get(k[0])) if c[2].info.get("changed") else set()
        out.append(c)
        s = c[2].state
    return out


def plain_walk(problem, insts, steps, rng, rs0):
    """Reference-guided executable walk: one random reference-applicable instance per step, 85 % of them state-changing."""
    out, s = [], rs0
    for _ in range(steps):
        cands = [(a, args, r) for a, args in insts for r in [seqsem.succ(problem, s, a, args)] if r.status == seqsem.OKAY]
        changing = [c for c in cands if c[2].info.get("changed")]
        pool = changing if changing and rng.random() < 0.85 else cands
        if not pool:
            break
        c = rng.choice(pool)
        out.append(c)
        s = c[2].state
    return out

"""Seeded generator of small classical/numeric problem recipes (the "C01 grammar", DESIGN §4)."""
from fractions import Fraction

DEFAULT_PROFILE = dict(
    numeric=True,
    reals=True,
    object_fluents=True,
    quantifiers=True,
    disjunctions=True,
    negatives=True,
    equalities=True,
    implies=True,
    cond_effects=True,
    forall_effects=True,
    incdec=True,
    bounded=True,
    invariants=0.25,
    undefined_init=0.2,
    interpreted_functions=0.0,
    metric=None,  # None | "any" | "costs" | "length" | "minfinal" | "maxfinal" | "oversub"
    traj=0.0,
    max_actions=3,
    max_params=2,
    max_objects=4,
    max_fluents=4,
    hierarchy=True,
    fluent_values_in_effects=True,  # effect values may read fluents
    bool_fluent_assign=True,  # boolean effect value may be a fluent expression
    names=None,  # optional callable (rng, kind, index) -> identifier
    int_params=0.0,
    mul=True,
    div=True,
    static_fluents=True,
    max_depth=2,
)


class G:
    def __init__(self, rng, profile=None):
        self.rng = rng
        self.pf = dict(DEFAULT_PROFILE)
        if profile:
            self.pf.update(profile)
        self.types = []  # [name, father]
        self.objects = []  # [name, type]
        self.fluents = []  # dicts
        self.used_names = set()
        self.feat = set()

    # ---- names ---------------------------------------------------------------------------------
    def name(self, kind, i):
        nm = self.pf["names"]
        if nm:
            for _ in range(20):
                n = nm(self.rng, kind, i)
                if n not in self.used_names:
                    self.used_names.add(n)
                    return n
        n = f"{kind}{i}"
        self.used_names.add(n)
        return n

    # ---- type helpers --------------------------------------------------------------------------
    def subtypes(self, t):
        out = [t]
        changed = True
        while changed:
            changed = False
            for n, f in self.types:
                if f in out and n not in out:
                    out.append(n)
                    changed = True
        return out

    def objs_of(self, t):
        st = self.subtypes(t)
        return [o for o, ot in self.objects if ot[1] in st]

    # ---- expressions ---------------------------------------------------------------------------
    def obj_term(self, t, scope, allow_fluent=True):
        """An expression recipe of user type t (or a subtype)."""
        r = self.rng
        cands = []
        for o in self.objs_of(t):
            cands.append(["o", o])
        for pn, pt in scope.get("params", []):
            if pt[0] == "user" and pt[1] in self.subtypes(t):
                cands += [["p", pn]] * 3
        for vn, vt in scope.get("vars", []):
            if vt[0] == "user" and vt[1] in self.subtypes(t):
                cands += [["v", vn, vt]] * 4
        if allow_fluent and self.pf["object_fluents"]:
            for f in self.fluents:
                if f["type"][0] == "user" and f["type"][1] in self.subtypes(t):
                    fe = self.fluent_exp(f, scope, allow_fluent=False)
                    if fe is not None:
                        cands.append(fe)
        if not cands:
            return None
        return r.choice(cands)

    def fluent_exp(self, f, scope, allow_fluent=True):
        args = []
        for pn, pt in f["sig"]:
            a = self.obj_term(pt[1], scope, allow_fluent=allow_fluent and self.rng.random() < 0.15)
            if a is None:
                return None
            args.append(a)
        return ["f", f["name"]] + args

    def num_const(self, real_ok=True):
        r = self.rng
        x = r.random()
        if x < 0.7 or not (real_ok and self.pf["reals"]):
            return ["i", r.choice([-2, -1, 0, 1, 1, 2, 2, 3, 5])]
        return ["r", str(Fraction(r.choice([-3, -1, 1, 1, 3, 5, 7]), r.choice([2, 3, 4])))]

    def num(self, depth, scope, int_only=False, use_fluents=True):
        r = self.rng
        nf = [f for f in self.fluents if f["type"][0] in ("int", "real") and (not int_only or f["type"][0] == "int")]
        x = r.random()
        if depth <= 0 or x < 0.35:
            if nf and use_fluents and r.random() < 0.65:
                fe = self.fluent_exp(r.choice(nf), scope)
                if fe is not None:
                    return fe
            ips = [pn for pn, pt in scope.get("params", []) if pt[0] == "int"]
            if ips and r.random() < 0.4:
                return ["p", r.choice(ips)]
            return self.num_const(real_ok=not int_only)
        if x < 0.6:
            return ["plus", self.num(depth - 1, scope, int_only, use_fluents), self.num(depth - 1, scope, int_only, use_fluents)]
        if x < 0.78:
            return ["minus", self.num(depth - 1, scope, int_only, use_fluents), self.num(depth - 1, scope, int_only, use_fluents)]
        if x < 0.92 and self.pf["mul"]:
            return ["times", self.num(depth - 1, scope, int_only, use_fluents), self.num_const(real_ok=not int_only)]
        if self.pf["div"] and not int_only and self.pf["reals"]:
            return ["div", self.num(depth - 1, scope, int_only, use_fluents), ["i", r.choice([2, 3, -2, 4])]]
        if self.pf["interpreted_functions"] and r.random() < self.pf["interpreted_functions"]:
            self.feat.add("interpreted_function")
            return ["if", r.choice(["if_double", "if_succ", "if_sq"]), self.num(depth - 1, scope, True, use_fluents)]
        return self.num(depth - 1, scope, int_only, use_fluents)

    def atom(self, scope, use_fluents=True):
        r = self.rng
        bf = [f for f in self.fluents if f["type"] == "bool"]
        x = r.random()
        if x < 0.5 and bf and use_fluents:
            fe = self.fluent_exp(r.choice(bf), scope)
            if fe is not None:
                return fe
        if x < 0.72 and self.pf["numeric"] and any(f["type"][0] in ("int", "real") for f in self.fluents):
            op = r.choice(["le", "lt", "ge", "gt", "eq"] if self.pf["equalities"] else ["le", "lt", "ge", "gt"])
            a = self.num(1, scope, use_fluents=use_fluents)
            b = self.num(1 if r.random() < 0.3 else 0, scope, use_fluents=use_fluents)
            if op == "eq":
                self.feat.add("equality")
            return [op, a, b]
        if x < 0.9 and self.pf["equalities"] and self.types:
            t = r.choice(self.types)[0]
            a = self.obj_term(t, scope, allow_fluent=use_fluents)
            b = self.obj_term(t, scope, allow_fluent=use_fluents)
            if a is not None and b is not None:
                self.feat.add("equality")
                return ["eq", a, b]
        if self.pf["interpreted_functions"] and r.random() < self.pf["interpreted_functions"] and self.pf["numeric"]:
            self.feat.add("interpreted_function")
            return ["if", "if_pos", self.num(1, scope, True, use_fluents)]
        if bf and use_fluents:
            fe = self.fluent_exp(r.choice(bf), scope)
            if fe is not None:
                return fe
        return ["b", r.random() < 0.7]

    def boolean(self, depth, scope, use_fluents=True):
        r = self.rng
        x = r.random()
        if depth <= 0 or x < 0.4:
            return self.atom(scope, use_fluents)
        if x < 0.52 and self.pf["negatives"]:
            self.feat.add("negation")
            return ["not", self.boolean(depth - 1, scope, use_fluents)]
        if x < 0.66:
            return ["and", self.boolean(depth - 1, scope, use_fluents), self.boolean(depth - 1, scope, use_fluents)]
        if x < 0.78 and self.pf["disjunctions"]:
            self.feat.add("disjunction")
            return ["or", self.boolean(depth - 1, scope, use_fluents), self.boolean(depth - 1, scope, use_fluents)]
        if x < 0.84 and self.pf["implies"] and self.pf["disjunctions"] and self.pf["negatives"]:
            self.feat.add("implies")
            k = r.choice(["implies", "iff"])
            return [k, self.boolean(depth - 1, scope, use_fluents), self.boolean(depth - 1, scope, use_fluents)]
        if self.pf["quantifiers"] and self.types:
            t = r.choice(self.types)[0]
            vn = f"q{len(scope.get('vars', []))}_{t}"
            v = [vn, ["user", t]]
            sc = dict(scope)
            sc["vars"] = list(scope.get("vars", [])) + [v]
            q = r.choice(["exists", "forall"])
            self.feat.add(q)
            if len(self.subtypes(t)) > 1:
                self.feat.add("hierarchical-quantifier")
            return [q, [v], self.boolean(depth - 1, sc, use_fluents)]
        return self.atom(scope, use_fluents)

    # ---- problem -------------------------------------------------------------------------------
    def gen(self):
        r, pf = self.rng, self.pf
        nt = r.choice([1, 1, 2, 2, 3])
        for i in range(nt):
            father = None
            if i > 0 and pf["hierarchy"] and r.random() < 0.6:
                father = r.choice(self.types)[0]
            self.types.append([self.name("T", i), father])
        budget = max(pf["max_objects"], len(self.types))  # every type gets at least one object (H15: empty types)
        oi = 0
        for t, _ in self.types:
            k = r.choice([1, 1, 2])
            k = max(1, min(k, budget - (len(self.types) - 1 - [x[0] for x in self.types].index(t))))
            for _ in range(min(k, budget)):
                self.objects.append([self.name("o", oi), ["user", t]])
                oi += 1
                budget -= 1
        if not self.objects:
            self.objects.append([self.name("o", 0), ["user", self.types[0][0]]])
        nfl = r.randint(2, pf["max_fluents"])
        for i in range(nfl):
            x = r.random()
            if x < 0.45 or not pf["numeric"]:
                ft = "bool"
            elif x < 0.8:
                if pf["bounded"] and r.random() < 0.6:
                    lo = r.choice([-2, 0, 0, 1])
                    ft = ["int", lo, lo + r.choice([2, 3, 4])]
                    if r.random() < 0.15:
                        ft = ["int", lo, None] if r.random() < 0.5 else ["int", None, lo + 3]
                else:
                    ft = ["int", None, None]
            elif x < 0.9 and pf["reals"]:
                ft = ["real", None, None] if not pf["bounded"] or r.random() < 0.5 else ["real", "0", "7/2"]
            elif pf["object_fluents"]:
                ft = ["user", r.choice(self.types)[0]]
            else:
                ft = "bool"
            sig = []
            np_ = r.choice([0, 0, 1, 1, 2]) if ft == "bool" else r.choice([0, 0, 0, 1])
            for j in range(np_):
                sig.append([f"x{j}", ["user", r.choice(self.types)[0]]])
            # keep grounding small
            n_ground = 1
            for _, pt in sig:
                n_ground *= max(1, len(self.objs_of(pt[1])))
            if n_ground > 4:
                sig = sig[:1]
            self.fluents.append({"name": self.name("f", i), "type": ft, "sig": sig, "default": None})
        if not any(f["type"] == "bool" for f in self.fluents):
            self.fluents[0]["type"] = "bool"
        # defaults and init
        init = []
        for f in self.fluents:
            dv = self.const_for(f["type"])
            mode = r.random()
            undefined = r.random() < pf["undefined_init"]
            if mode < 0.5 and dv is not None:
                f["default"] = dv
                if undefined:
                    f["default"] = None
                    self.feat.add("undefined-initial")
            for args in self.ground_args(f):
                if f["default"] is None:
                    if undefined and r.random() < 0.6:
                        self.feat.add("undefined-initial")
                        continue
                    v = self.const_for(f["type"])
                    if v is not None:
                        init.append([["f", f["name"]] + [["o", a] for a in args], v])
                    else:
                        self.feat.add("undefined-initial")
                elif r.random() < 0.4:
                    v = self.const_for(f["type"])
                    if v is not None:
                        init.append([["f", f["name"]] + [["o", a] for a in args], v])
        actions = []
        na = r.randint(1, pf["max_actions"])
        for i in range(na):
            actions.append(self.action(i))
        # a raise/reset pair of actions on a fluent that has a per-fluent default (histories in which a fluent leaves its
        # default and comes back are what difference-based state representations get wrong)
        if pf.get("toggle_pairs") and r.random() < pf["toggle_pairs"]:
            wd = [f for f in self.fluents if f["default"] is not None]
            if wd:
                f = r.choice(wd)
                other = None
                for _ in range(8):
                    c = self.const_for(f["type"])
                    if c is not None and c != f["default"]:
                        other = c
                        break
                if other is not None:
                    params = [[f"t{j}", pt] for j, (_, pt) in enumerate(f["sig"])]
                    fe = ["f", f["name"]] + [["p", pn] for pn, _ in params]
                    self.feat.add("toggle-pair")
                    actions.append({"name": self.name("up", len(actions)), "params": params, "pre": [], "effects": [{"kind": "assign", "fluent": fe, "value": other, "cond": None, "forall": []}]})
                    actions.append({"name": self.name("dn", len(actions)), "params": params, "pre": [], "effects": [{"kind": "assign", "fluent": fe, "value": f["default"], "cond": None, "forall": []}]})
        goals = [self.boolean(1, {}) for _ in range(r.choice([1, 1, 2]))]
        invariants = []
        if r.random() < pf["invariants"]:
            self.feat.add("invariant")
            # half of the invariants are built to hold initially and to be breakable by an effect
            known = {str(fe): (fe, v) for fe, v in init}
            for f in self.fluents:
                if f["default"] is not None:
                    for args in self.ground_args(f):
                        fe = ["f", f["name"]] + [["o", a] for a in args]
                        known.setdefault(str(fe), (fe, f["default"]))
            cands = sorted(known.values(), key=str)
            if cands and r.random() < 0.6:
                fe, v = r.choice(cands)
                if v[0] == "b":
                    invariants.append(fe if v[1] else ["not", fe])
                elif v[0] in ("i", "r"):
                    c = Fraction(v[1])
                    if r.random() < 0.5:
                        invariants.append(["le", fe, ["r", str(c + r.choice([0, 1, 2]))]])
                    else:
                        invariants.append(["ge", fe, ["r", str(c - r.choice([0, 1, 2]))]])
                else:
                    invariants.append(["eq", fe, v] if r.random() < 0.5 else self.boolean(1, {}))
            else:
                invariants.append(self.boolean(1, {}))
        rec = {
            "name": "gen",
            "types": self.types,
            "objects": self.objects,
            "fluents": self.fluents,
            "actions": actions,
            "init": init,
            "goals": goals,
            "invariants": invariants,
        }
        if pf["traj"] and r.random() < pf["traj"]:
            rec["traj"] = [self.traj() for _ in range(r.choice([1, 1, 2]))]
            self.feat.add("trajectory")
        m = pf["metric"]
        if m:
            rec["metric"] = self.metric(m, actions)
        return rec

    def traj(self):
        r = self.rng
        k = r.choice(["always", "sometime", "amo", "sb", "sa"])
        if k in ("sb", "sa"):
            return [k, self.boolean(1, {}), self.boolean(1, {})]
        return [k, self.boolean(1, {})]

    def metric(self, m, actions):
        r = self.rng
        if m == "any":
            m = r.choice(["costs", "length", "minfinal", "maxfinal", "oversub"])
        if m == "costs":
            costs = {}
            for a in actions:
                if r.random() < 0.8:
                    sc = {"params": a["params"]}
                    x = r.random()
                    own = [e["fluent"] for e in a["effects"] if not e["forall"] and next(f for f in self.fluents if f["name"] == e["fluent"][1])["type"][0] in ("int", "real")]
                    if x < 0.3:
                        costs[a["name"]] = ["i", r.choice([0, 1, 2, 3])]
                    elif x < 0.65 and own:
                        # the cost reads a fluent that the action itself modifies: pre-state vs post-state evaluation differ
                        fe = r.choice(own)
                        costs[a["name"]] = fe if r.random() < 0.5 else ["plus", fe, ["i", r.choice([1, 2])]]
                    else:
                        costs[a["name"]] = self.num(1, sc)
            d = ["i", r.choice([0, 1])] if r.random() < 0.5 else None
            return {"kind": "costs", "costs": costs, "default": d}
        if m == "length":
            return {"kind": "length"}
        if m in ("minfinal", "maxfinal"):
            return {"kind": m, "expr": self.num(2, {})}
        if m == "oversub":
            goals = []
            for _ in range(r.choice([1, 2, 3])):
                w = r.choice(["1", "2", "3", "-1", "1/2", "5"])
                goals.append([self.boolean(1, {}), w])
            # distinct goal expressions only
            seen, out = set(), []
            for g, w in goals:
                if str(g) not in seen:
                    seen.add(str(g))
                    out.append([g, w])
            return {"kind": "oversub", "goals": out}
        raise ValueError(m)

    def ground_args(self, f):
        import itertools

        doms = [self.objs_of(pt[1]) for _, pt in f["sig"]]
        return list(itertools.product(*doms))

    def const_for(self, t):
        r = self.rng
        if t == "bool":
            return ["b", r.random() < 0.5]
        if t[0] == "int":
            lo = t[1] if t[1] is not None else (t[2] - 4 if t[2] is not None else -2)
            hi = t[2] if t[2] is not None else lo + 4
            return ["i", r.randint(lo, hi)]
        if t[0] == "real":
            if t[1] is not None:
                return ["r", str(r.choice([Fraction(0), Fraction(1, 2), Fraction(1), Fraction(3, 2), Fraction(7, 2)]))]
            return ["r", str(r.choice([Fraction(-1, 2), Fraction(0), Fraction(1), Fraction(5, 3)]))]
        if t[0] == "user":
            objs = self.objs_of(t[1])
            if not objs:
                return None
            return ["o", r.choice(objs)]
        raise ValueError(t)

    def action(self, i):
        r, pf = self.rng, self.pf
        params = []
        for j in range(r.randint(0, pf["max_params"])):
            if pf["int_params"] and r.random() < pf["int_params"]:
                params.append([f"n{j}", ["int", 0, 2]])
            else:
                params.append([f"y{j}", ["user", r.choice(self.types)[0]]])
        sc = {"params": params}
        pre = [self.boolean(pf["max_depth"], sc) for _ in range(r.choice([0, 1, 1, 2]))]
        effects = []
        for _ in range(r.choice([1, 1, 2, 2, 3])):
            e = self.effect(sc)
            if e is not None:
                effects.append(e)
        # sibling effects: a second effect on the same fluent (other argument / other value / other condition), which is
        # what produces same-instant conflicts, add-after-delete and accumulated increases once parameters coincide
        if effects and r.random() < 0.45:
            import copy

            base = r.choice(effects)
            sib = copy.deepcopy(base)
            f = next(fl for fl in self.fluents if fl["name"] == base["fluent"][1])
            esc = dict(sc)
            if sib["forall"]:
                esc["vars"] = sib["forall"]
            if r.random() < 0.5:
                for k in range(2, len(sib["fluent"])):
                    t = f["sig"][k - 2][1][1]
                    alt = self.obj_term(t, sc, allow_fluent=False)
                    if alt is not None and r.random() < 0.7:
                        sib["fluent"][k] = alt
            if f["type"] == "bool":
                sib["value"] = ["b", not base["value"][1]] if base["value"][0] == "b" else ["b", r.random() < 0.5]
            elif f["type"][0] in ("int", "real"):
                if sib["kind"] == "assign":
                    sib["value"] = self.const_for(f["type"]) if r.random() < 0.7 else self.num(1, esc, f["type"][0] == "int")
                elif r.random() < 0.3:
                    sib["kind"] = "dec" if sib["kind"] == "inc" else "inc"
            else:
                v = self.obj_term(f["type"][1], esc, allow_fluent=False)
                if v is not None:
                    sib["value"] = v
            x = r.random()
            if x < 0.35 and pf["cond_effects"]:
                sib["cond"] = self.boolean(1, esc)
            elif x < 0.6:
                sib["cond"] = None
            effects.append(sib)
        # a forall increase/decrease whose instances all hit ONE ground fluent (the variable occurs only in the
        # condition or in the value): "forall ranges over all objects" + "increases accumulate" together
        if pf.get("coinciding_forall") and r.random() < pf["coinciding_forall"]:
            nums = [fl for fl in self.fluents if fl["type"][0] in ("int", "real")]
            tys = [t for t, _ in self.types if len(self.objs_of(t)) >= 2]
            if nums and tys:
                f = r.choice(nums)
                fe = self.fluent_exp(f, sc, allow_fluent=False)
                t = r.choice(tys)
                v = [f"e_{t}", ["user", t]]
                ve = ["v", v[0], v[1]]
                esc = dict(sc)
                esc["vars"] = [v]
                x = r.random()
                if x < 0.35:
                    cond = ["eq", ve, ve]  # simplifies away: the variable disappears from the ground action
                elif x < 0.5:
                    cond = ["or", ["eq", ve, ["o", self.objs_of(t)[0]]], ["not", ["eq", ve, ["o", self.objs_of(t)[0]]]]]
                else:
                    cond = self.boolean(1, esc)
                    if x < 0.8 and self.objs_of(t):
                        cond = ["and", ["not", ["eq", ve, ["o", r.choice(self.objs_of(t))]]], cond] if r.random() < 0.5 else ["or", ["eq", ve, ve], cond]
                if fe is not None:
                    self.feat.add("coinciding-forall")
                    effects.append({"kind": r.choice(["inc", "dec"]), "fluent": fe, "value": ["i", r.choice([1, 2, 3])], "cond": cond, "forall": [v]})
        return {"name": self.name("a", i), "params": params, "pre": pre, "effects": effects}

    def effect(self, sc):
        r, pf = self.rng, self.pf
        f = r.choice(self.fluents)
        esc = dict(sc)
        forall = []
        if pf["forall_effects"] and f["sig"] and r.random() < 0.3:
            pn, pt = f["sig"][0]
            v = [f"e_{pt[1]}", pt]
            forall = [v]
            esc["vars"] = [v]
            self.feat.add("forall-effect")
            if len(self.subtypes(pt[1])) > 1:
                self.feat.add("hierarchical-forall")
        fe = self.fluent_exp(f, esc, allow_fluent=r.random() < 0.1)
        if fe is None:
            return None
        if forall and not any(a == ["v", forall[0][0], forall[0][1]] for a in fe[2:]):
            fe[2] = ["v", forall[0][0], forall[0][1]]
        cond = None
        if pf["cond_effects"] and r.random() < 0.35:
            cond = self.boolean(1, esc)
            self.feat.add("conditional-effect")
        t = f["type"]
        uf = pf["fluent_values_in_effects"]
        if t == "bool":
            if pf["bool_fluent_assign"] and r.random() < 0.15:
                val = self.boolean(1, esc)
            else:
                val = ["b", r.random() < 0.6]
            return {"kind": "assign", "fluent": fe, "value": val, "cond": cond, "forall": forall}
        if t[0] in ("int", "real"):
            int_only = t[0] == "int"
            if pf["incdec"] and r.random() < 0.55:
                kind = r.choice(["inc", "dec"])
                self.feat.add("incdec")
                val = self.num(1, esc, int_only, uf) if r.random() < 0.4 else ["i", r.choice([1, 1, 2, 3])]
                return {"kind": kind, "fluent": fe, "value": val, "cond": cond, "forall": forall}
            val = self.num(1, esc, int_only, uf) if r.random() < 0.6 else self.const_for(t)
            return {"kind": "assign", "fluent": fe, "value": val, "cond": cond, "forall": forall}
        if t[0] == "user":
            val = self.obj_term(t[1], esc, allow_fluent=uf)
            if val is None:
                return None
            return {"kind": "assign", "fluent": fe, "value": val, "cond": cond, "forall": forall}
        return None


def gen_problem(rng, profile=None):
    g = G(rng, profile)
    rec = g.gen()
    return rec, sorted(g.feat)

"""Interpretations for reference evaluation: exhaustive over small finite domains, else corner/extreme/random samples."""
from fractions import Fraction
from itertools import product

from vk.ref.evalx import Interp, domain_of
from vk.ref.seqsem import ground_fluents

EXTREME = [0, 1, -1, 2, -3, Fraction(1, 3), Fraction(-7, 2), 2**53 + 1, -(2**53 + 1), 10**30, Fraction(10**40 + 1, 3)]


def type_values(problem, tp, rich=True):
    d = domain_of(problem, tp, int_cap=6)
    if d is not None:
        return list(d)
    lb, ub = tp.lower_bound, tp.upper_bound
    vals = []
    for v in EXTREME if rich else EXTREME[:6]:
        if tp.is_int_type() and not isinstance(v, int):
            continue
        if (lb is None or v >= lb) and (ub is None or v <= ub):
            vals.append(v)
    for b in (lb, ub):
        if b is not None:
            b = Fraction(b)
            vals.append(int(b) if b.denominator == 1 else b)
            if tp.is_real_type():
                vals.append(b + Fraction(1, 3) if b == Fraction(lb if lb is not None else b) else b - Fraction(1, 3))
    vals = [v for v in vals if (lb is None or v >= lb) and (ub is None or v <= ub)]
    out = []
    for v in vals:
        if not any(v == o for o in out):
            out.append(v)
    return out or [0]


def interpretations(problem, rng, params=(), variables=(), pinned=None, cap=48, fluents=None):
    """params / variables: iterables of (name, Type). pinned: dict ground-fluent key -> value (e.g. static fluents).
    Returns (list of Interp, exhaustive: bool)."""
    pinned = pinned or {}
    keys, doms = [], []
    for f, args in ground_fluents(problem) if fluents is None else fluents:
        k = (f.name, args)
        if k in pinned:
            continue
        keys.append(("f", k))
        doms.append(type_values(problem, f.type))
    for n, t in params:
        keys.append(("p", n))
        doms.append(type_values(problem, t))
    for n, t in variables:
        keys.append(("v", n))
        doms.append(type_values(problem, t))
    total = 1
    for d in doms:
        total *= len(d)
        if total > cap:
            break
    combos = []
    exhaustive = total <= cap
    if exhaustive:
        combos = list(product(*doms))
    else:
        seen = set()
        # corner combos first (all-first, all-last), then random
        for pick in (0, -1):
            c = tuple(d[pick] for d in doms)
            if c not in seen:
                seen.add(c)
                combos.append(c)
        tries = 0
        while len(combos) < cap and tries < cap * 5:
            tries += 1
            c = tuple(rng.choice(d) for d in doms)
            if c not in seen:
                seen.add(c)
                combos.append(c)
    out = []
    for c in combos:
        fl = dict(pinned)
        ps, vs = {}, {}
        for (kind, k), v in zip(keys, c):
            if kind == "f":
                fl[k] = v
            elif kind == "p":
                ps[k] = v
            else:
                vs[k] = v
        out.append(Interp(problem, fl, ps, vs))
    return out, exhaustive

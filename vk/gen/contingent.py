"""Seeded generator of small contingent problem recipes + instantiation through the public constructors (owner: C35).

recipe = a vk.recipe problem recipe (types / objects / fluents with per-fluent defaults / instantaneous actions / init /
goals) plus
    "type_defaults": [[type recipe, value expr]]      per-type initial defaults given to the ContingentProblem constructor
    "sensing": [{"name","params","pre":[expr],"observed":[fluent expr]}]
    "constraints": [["oneof"|"or", [lit...]] | ["unknown", fluent expr]]     lit = fluent expr | ["not", fluent expr]

Stratum "same-fluent constraint pair" (profile key same_fluent_pair): a second oneof/or constraint over exactly the ground
fluents of an earlier one that differs from it in kind and/or polarity (oneof(a,b) + or(not a,b); or(a,b) + or(not a,not b);
oneof(not a,b) + or(a,b); ...). Most of them are filtered so that the whole constraint set stays satisfiable and neither
constraint of the pair is implied by the others; the rest is unfiltered (may be redundant or jointly unsatisfiable).
"""
from itertools import product
from collections import OrderedDict

from vk.gen.problem import G as _PG
from vk.recipe import instantiate_problem

PROFILE = dict(
    reals=False,
    object_fluents=True,
    quantifiers=True,
    invariants=0.0,
    undefined_init=0.0,
    interpreted_functions=0.0,
    metric=None,
    traj=0.0,
    max_actions=3,
    max_params=1,
    div=False,
    mul=False,
    max_depth=1,
    int_params=0.0,
)


def _atom(l):
    return l[1] if l[0] == "not" else l


def _sat(c, s):
    if c[0] == "unknown":
        return True
    vals = [(not s[str(_atom(l))]) if l[0] == "not" else s[str(l)] for l in c[1]]
    return sum(vals) == 1 if c[0] == "oneof" else any(vals)


def n_models(constraints, atoms):
    """number of assignments of `atoms` (list of str(fluent expr)) satisfying every constraint recipe."""
    n = 0
    for combo in product([False, True], repeat=len(atoms)):
        s = dict(zip(atoms, combo))
        if all(_sat(c, s) for c in constraints):
            n += 1
    return n


class G(_PG):
    def same_fluent_twin(self, constraints):
        """Appends (at a random position) a second constraint over exactly the ground fluents of an existing oneof/or
        constraint. Draws from self.rng only; called last so that the rest of the recipe does not depend on it."""
        r = self.rng
        if r.random() >= self.pf.get("same_fluent_pair", 0.4):
            return
        bases = [c for c in constraints if c[0] != "unknown" and len(c[1]) >= 2]
        if not bases:
            return
        base = r.choice(bases)
        strict = r.random() < 0.85
        atoms = sorted({str(_atom(l)) for c in constraints if c[0] != "unknown" for l in c[1]})
        if len(atoms) > 10:
            return
        for _ in range(16):
            k = r.choice(["oneof", "or"])
            lits = [(["not", _atom(l)] if r.random() < 0.5 else _atom(l)) for l in base[1]]
            r.shuffle(lits)
            if k == base[0] and sorted(map(str, lits)) == sorted(map(str, base[1])):
                continue  # the same constraint again
            cand = [k, lits]
            if strict:
                allc = constraints + [cand]
                n = n_models(allc, atoms)
                if n == 0:
                    continue
                if n_models(constraints, atoms) <= n:
                    continue  # the new one is implied by the others
                if n_models([c for c in allc if c is not base], atoms) <= n:
                    continue  # the old one is implied by the others
            constraints.insert(r.randint(0, len(constraints)), cand)
            self.feat.add("same-fluent-constraint-pair" + (":each-needed" if strict else ":unfiltered"))
            if any(l[0] == "not" for l in lits):
                self.feat.add("negated-literal")
            return

    def gen_contingent(self):
        r = self.rng
        # ---- types / objects ---------------------------------------------------------------------------------------
        self.types = [["L", None]]
        self.objects = [[f"l{i}", ["user", "L"]] for i in range(r.choice([1, 2, 2]))]
        # ---- per-type defaults ---------------------------------------------------------------------------------------
        type_defaults = []
        if r.random() < 0.55:
            type_defaults.append(["bool", ["b", r.random() < 0.5]])
        if r.random() < 0.45:
            type_defaults.append([["int", 0, 3], ["i", r.choice([0, 1, 2])]])
        tdef = {str(t): v for t, v in type_defaults}
        # ---- fluents -------------------------------------------------------------------------------------------------
        self.fluents = []
        hidden_pool = []
        for i in range(r.choice([2, 3, 3, 4])):
            sig = [["x0", ["user", "L"]]] if r.random() < 0.3 else []
            f = {"name": f"h{i}", "type": "bool", "sig": sig, "default": None}
            x = r.random()
            if x < 0.45:
                f["default"] = ["b", r.random() < 0.5]
            self.fluents.append(f)
            hidden_pool.append(f)
        for i in range(r.choice([2, 3, 3, 4])):
            x = r.random()
            if x < 0.5:
                t = "bool"
            elif x < 0.85:
                t = ["int", 0, 3]
            else:
                t = ["user", "L"]
            sig = [["x0", ["user", "L"]]] if (t == "bool" and r.random() < 0.3) else []
            f = {"name": f"v{i}", "type": t, "sig": sig, "default": None}
            if r.random() < 0.6:
                f["default"] = self.const_for(t)
                if t == "bool" and r.random() < 0.6:
                    f["default"] = ["b", True]  # the interesting per-fluent default
            self.fluents.append(f)
        # ---- hidden part: constraints over ground literals -------------------------------------------------------------
        ground_hidden = []
        for f in hidden_pool:
            for args in self.ground_args(f):
                ground_hidden.append(["f", f["name"]] + [["o", a] for a in args])
        r.shuffle(ground_hidden)
        constraints = []
        used = []
        pool = list(ground_hidden)
        for _ in range(r.choice([1, 2, 2, 3])):
            if not pool:
                break
            k = r.choice(["oneof", "or", "unknown", "oneof", "or"])
            if k == "unknown":
                fe = pool.pop()
                used.append(fe)
                constraints.append(["unknown", fe])
                continue
            n = min(len(pool) + len(used), r.choice([2, 2, 3]))
            lits = []
            for _ in range(n):
                if pool and (not used or r.random() < 0.75):
                    fe = pool.pop()
                    used.append(fe)
                else:
                    fe = r.choice(used)
                if fe in [l if l[0] != "not" else l[1] for l in lits]:
                    continue
                if r.random() < self.pf.get("negated_literals", 0.15):
                    lits.append(["not", fe])
                    self.feat.add("negated-literal")
                else:
                    lits.append(fe)
            if len(lits) >= 1:
                constraints.append([k, lits])
        hidden = {str(fe) for fe in used}
        # ---- explicit initial values ---------------------------------------------------------------------------------
        init = []
        for f in self.fluents:
            declared = f["default"] is not None or str(f["type"]) in tdef
            for args in self.ground_args(f):
                fe = ["f", f["name"]] + [["o", a] for a in args]
                if str(fe) in hidden:
                    if r.random() < 0.2:
                        init.append([fe, self.const_for(f["type"])])  # ignored: the fluent is hidden
                    continue
                if not declared:
                    if r.random() < 0.93:
                        init.append([fe, self.const_for(f["type"])])
                    else:
                        self.feat.add("undeclared-initial-value")
                elif r.random() < 0.3:
                    init.append([fe, self.const_for(f["type"])])
        # ---- actions ---------------------------------------------------------------------------------------------------
        actions = [self.action(i) for i in range(r.randint(1, self.pf["max_actions"]))]
        sensing = []
        for i in range(r.choice([1, 1, 2])):
            params = [["y0", ["user", "L"]]] if r.random() < 0.4 else []
            sc = {"params": params}
            pre = [self.boolean(1, sc)] if r.random() < 0.4 else []
            obs = []
            for _ in range(r.choice([1, 1, 2])):
                f = r.choice(self.fluents if r.random() < 0.3 else hidden_pool)
                fe = self.fluent_exp(f, sc, allow_fluent=False)
                if fe is not None and fe not in obs:
                    obs.append(fe)
            if obs:
                sensing.append({"name": f"sense{i}", "params": params, "pre": pre, "observed": obs})
        goals = [self.boolean(1, {})]
        self.same_fluent_twin(constraints)  # same ground fluents as an existing constraint: `hidden` is unchanged
        return {
            "name": "cont",
            "types": self.types,
            "objects": self.objects,
            "fluents": self.fluents,
            "actions": actions,
            "init": init,
            "goals": goals,
            "type_defaults": type_defaults,
            "sensing": sensing,
            "constraints": constraints,
        }


def gen_contingent(rng, profile=None):
    pf = dict(PROFILE)
    if profile:
        pf.update(profile)
    g = G(rng, pf)
    rec = g.gen_contingent()
    return rec, sorted(g.feat)


def instantiate(rec, env):
    """Builds the ContingentProblem of a recipe. Returns (problem, ctx)."""
    from unified_planning.model.contingent import ContingentProblem, SensingAction

    tm = env.type_manager

    def mk_type(t):
        if t == "bool":
            return tm.BoolType()
        if t[0] == "int":
            return tm.IntType(t[1], t[2])
        raise ValueError(t)

    em = env.expression_manager
    defaults = {}
    for t, v in rec.get("type_defaults", []):
        defaults[mk_type(t)] = em.Bool(v[1]) if v[0] == "b" else em.Int(v[1])

    def cls(name, e):
        return ContingentProblem(name, e, initial_defaults=defaults)

    pb, ctx = instantiate_problem(rec, env, problem_cls=cls)
    for s in rec.get("sensing", []):
        params = OrderedDict((n, ctx.type(t)) for n, t in s.get("params", []))
        a = SensingAction(s["name"], params, env)
        ctx.params = {p.name: p for p in a.parameters}
        for c in s.get("pre", []):
            a.add_precondition(ctx.expr(c))
        for o in s["observed"]:
            a.add_observed_fluent(ctx.expr(o))
        ctx.params = {}
        pb.add_action(a)
    for c in rec.get("constraints", []):
        if c[0] == "unknown":
            pb.add_unknown_initial_constraint(ctx.expr(c[1]))
        elif c[0] == "oneof":
            pb.add_oneof_initial_constraint([ctx.expr(l) for l in c[1]])
        else:
            pb.add_or_initial_constraint([ctx.expr(l) for l in c[1]])
    return pb, ctx

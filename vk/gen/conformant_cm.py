"""Seeded generator of small Boolean conformant problems (owner: conformant-meta; C30).

Recipe = vk.gen.problem recipe restricted to the Ks0 compiler's kind (Boolean fluents only, constant Boolean effect
values, conditional / forall effects, negative / disjunctive / quantified / equality conditions) with at most one effect
per ground fluent per ground action, plus either an explicit list of possible initial states or contingent constraints
(oneof / or / unknown over ground fluents).  A directed family of classic conformant shapes is mixed in.
"""
from itertools import product

from vk.gen.problem import gen_problem

PROFILE = dict(
    numeric=False,
    reals=False,
    object_fluents=False,
    incdec=False,
    bounded=False,
    invariants=0.0,
    undefined_init=0.0,
    bool_fluent_assign=False,
    interpreted_functions=0.0,
    max_fluents=3,
    max_objects=3,
    max_actions=3,
    max_params=1,
    int_params=0.0,
    max_depth=2,
)


def _subtypes(rec, t):
    out = {t}
    changed = True
    while changed:
        changed = False
        for n, f in rec["types"]:
            if f in out and n not in out:
                out.add(n)
                changed = True
    return out


def _objs(rec, t):
    st = _subtypes(rec, t)
    return [o for o, ot in rec["objects"] if ot[1] in st]


def kstr(k):
    return f"{k[0]}({','.join(k[1])})"


def ground_fluent_keys(rec):
    out = []
    for f in rec["fluents"]:
        doms = [_objs(rec, pt[1]) for _, pt in f["sig"]]
        for combo in product(*doms):
            out.append((f["name"], tuple(combo)))
    return out


def _target_keys(rec, action, eff):
    """ground targets of eff for every instance of action: dict args-tuple -> set of (fluent, args) (None if it cannot be
    determined syntactically, e.g. nested fluents)."""
    pdoms = [_objs(rec, pt[1]) for _, pt in action["params"]]
    vdoms = [_objs(rec, vt[1]) for _, vt in eff.get("forall", [])]
    res = {}
    for pargs in product(*pdoms):
        penv = {pn: a for (pn, _), a in zip(action["params"], pargs)}
        keys = set()
        for vargs in product(*vdoms):
            venv = {vn: a for (vn, _), a in zip(eff.get("forall", []), vargs)}
            targs = []
            for a in eff["fluent"][2:]:
                if a[0] == "o":
                    targs.append(a[1])
                elif a[0] == "p":
                    targs.append(penv[a[1]])
                elif a[0] == "v":
                    targs.append(venv[a[1]])
                else:
                    return None
            keys.add((eff["fluent"][1], tuple(targs)))
        res[pargs] = keys
    return res


def one_effect_per_ground_fluent(rec):
    """Drop effects so that no ground action has two effects on one ground fluent (C30's quantifier)."""
    for a in rec["actions"]:
        kept, seen = [], {}
        for eff in a["effects"]:
            tk = _target_keys(rec, a, eff)
            if tk is None:
                continue
            if any(tk[k] & seen.get(k, set()) for k in tk):
                continue
            for k in tk:
                seen.setdefault(k, set()).update(tk[k])
            kept.append(eff)
        a["effects"] = kept
    return rec


def _directed(rng):
    """Classic conformant shapes: a token at an unknown position with conditional moves; unknown switches with toggles."""
    n = rng.choice([2, 3, 3])
    objs = [[f"c{i}", ["user", "Cell"]] for i in range(n)]
    fl = [{"name": "at", "type": "bool", "sig": [["x0", ["user", "Cell"]]], "default": ["b", False]}, {"name": "ok", "type": "bool", "sig": [], "default": ["b", False]}]
    acts = []
    for i in range(n - 1):
        if rng.random() < 0.85:
            acts.append(
                {
                    "name": f"right{i}",
                    "params": [],
                    "pre": [],
                    "effects": [
                        {"kind": "assign", "fluent": ["f", "at", ["o", f"c{i+1}"]], "value": ["b", True], "cond": ["f", "at", ["o", f"c{i}"]], "forall": []},
                        {"kind": "assign", "fluent": ["f", "at", ["o", f"c{i}"]], "value": ["b", False], "cond": ["f", "at", ["o", f"c{i}"]], "forall": []},
                    ],
                }
            )
    x = rng.random()
    last = ["f", "at", ["o", f"c{n-1}"]]
    if x < 0.35:
        acts.append({"name": "finish", "params": [], "pre": [last], "effects": [{"kind": "assign", "fluent": ["f", "ok"], "value": ["b", True], "cond": None, "forall": []}]})
        goals = [["f", "ok"]]
    elif x < 0.6:
        acts.append(
            {
                "name": "finish",
                "params": [],
                "pre": [["or", last, ["f", "at", ["o", f"c{n-2}"]]]] if rng.random() < 0.5 else [["exists", [["q", ["user", "Cell"]]], ["f", "at", ["v", "q", ["user", "Cell"]]]]],
                "effects": [{"kind": "assign", "fluent": ["f", "ok"], "value": ["b", True], "cond": None, "forall": []}],
            }
        )
        goals = [["f", "ok"]]
    elif x < 0.8:
        acts.append(
            {
                "name": "clear",
                "params": [],
                "pre": [],
                "effects": [{"kind": "assign", "fluent": ["f", "at", ["v", "e", ["user", "Cell"]]], "value": ["b", False], "cond": ["not", ["eq", ["v", "e", ["user", "Cell"]], ["o", f"c{n-1}"]]], "forall": [["e", ["user", "Cell"]]]}],
            }
        )
        goals = [last, ["forall", [["q", ["user", "Cell"]]], ["or", ["eq", ["v", "q", ["user", "Cell"]], ["o", f"c{n-1}"]], ["not", ["f", "at", ["v", "q", ["user", "Cell"]]]]]]]
    else:
        goals = [last]
    rec = {"name": "corridor", "types": [["Cell", None]], "objects": objs, "fluents": fl, "actions": acts, "init": [[["f", "at", ["o", "c0"]], ["b", True]]], "goals": goals, "invariants": []}
    return rec, ["directed-corridor"]


def gen_conformant(rng, directed=0.25, contingent=0.38):
    """-> (recipe, features, uncertainty) with uncertainty =
    {"mode": "explicit", "states": [{"f(a,b)": bool, ...}, ...]} (keys are kstr(k) for k in ground_fluent_keys) or
    {"mode": "contingent", "oneof": [[[key, positive], ...]], "or": [...], "unknown": [key, ...]}"""
    if rng.random() < directed:
        rec, feats = _directed(rng)
    else:
        rec, feats = gen_problem(rng, PROFILE)
        feats = list(feats)
    one_effect_per_ground_fluent(rec)
    keys = ground_fluent_keys(rec)
    base = {}
    for f in rec["fluents"]:
        for k in keys:
            if k[0] == f["name"]:
                base[k] = bool(f["default"][1]) if f.get("default") else False
    for fe, v in rec["init"]:
        k = (fe[1], tuple(a[1] for a in fe[2:]))
        if k in base:
            base[k] = bool(v[1])
    # make the recipe's own initial state total (the compiler requires defined Boolean values for non-hidden fluents)
    rec["init"] = [[["f", k[0]] + [["o", a] for a in k[1]], ["b", v]] for k, v in base.items()]
    if "directed-corridor" in feats:
        cells = [k for k in keys if k[0] == "at"]
        if rng.random() < contingent:
            hidden = cells if rng.random() < 0.6 else rng.sample(cells, max(2, len(cells) - 1))
            unc = {"mode": "contingent", "oneof": [[[list(k), True] for k in hidden]], "or": [], "unknown": []}
            return rec, feats + ["contingent", "oneof"], unc
        states = []
        for k in rng.sample(cells, rng.randint(1, len(cells))):
            s = dict(base)
            for c in cells:
                s[c] = c == k
            states.append(s)
        if rng.random() < 0.3:
            s = dict(rng.choice(states))
            s[("ok", ())] = True
            states.append(s)
        return rec, feats, {"mode": "explicit", "states": [{kstr(k): v for k, v in s.items()} for s in states]}
    if rng.random() < contingent and len(keys) >= 2:
        unc = {"mode": "contingent", "oneof": [], "or": [], "unknown": []}
        pool = list(keys)
        rng.shuffle(pool)
        pool = pool[: rng.randint(2, min(4, len(pool)))]
        x = rng.random()
        fs = ["contingent"]
        if x < 0.35 and len(pool) >= 2:
            g = pool[: rng.randint(2, len(pool))]
            unc["oneof"].append([[list(k), rng.random() < 0.85] for k in g])
            fs.append("oneof")
            for k in pool[len(g) :]:
                unc["unknown"].append(list(k))
                fs.append("unknown")
        elif x < 0.75 and len(pool) >= 2:
            g = pool[: rng.randint(2, len(pool))]
            unc["or"].append([[list(k), rng.random() < 0.8] for k in g])
            fs.append("or")
            if rng.random() < 0.4 and len(g) >= 2:
                unc["oneof"].append([[list(k), True] for k in g[:2]])
                fs.append("oneof")
                fs.append("oneof+or-shared-atoms")
        else:
            for k in pool[:3]:
                unc["unknown"].append(list(k))
            fs.append("unknown")
        return rec, feats + fs, unc
    n = rng.choice([1, 2, 2, 3, 3, 4])
    states = []
    for i in range(n):
        s = dict(base)
        x = rng.random()
        if x < 0.6 and keys:
            for k in rng.sample(keys, min(len(keys), rng.choice([1, 1, 2]))):
                s[k] = not s[k]
        elif x < 0.8:
            for k in keys:
                s[k] = rng.random() < 0.5
        states.append(s)
    if rng.random() < 0.2 and states:
        states.append(dict(rng.choice(states)))  # duplicate (exercises de-duplication)
    return rec, feats, {"mode": "explicit", "states": [{kstr(k): v for k, v in s.items()} for s in states]}

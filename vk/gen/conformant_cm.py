"""Seeded generator of small Boolean conformant problems (owner: conformant-meta; C30).

Recipe = vk.gen.problem recipe restricted to the Ks0 compiler's kind (Boolean fluents only, constant Boolean effect
values, conditional / forall effects, negative / disjunctive / quantified / equality conditions) with at most one effect
per ground fluent per ground action, plus either an explicit list of possible initial states or contingent constraints
(oneof / or / unknown over ground fluents; the literals of oneof / or groups may be negative: a oneof group means "exactly
one of the listed literals holds").  Two directed families are mixed in: classic corridor shapes, and chains of conditional
effects of depth 2-3 with mixed polarities whose uncertainty is about one early-chain atom.
"""
from itertools import product

from vk.gen.problem import gen_problem

PROFILE = dict(
    numeric=False,
    reals=False,
    object_fluents=False,
    incdec=False,
    bounded=False,
    invariants=0.0,
    undefined_init=0.0,
    bool_fluent_assign=False,
    interpreted_functions=0.0,
    max_fluents=3,
    max_objects=3,
    max_actions=3,
    max_params=1,
    int_params=0.0,
    max_depth=2,
)


def _subtypes(rec, t):
    out = {t}
    changed = True
    while changed:
        changed = False
        for n, f in rec["types"]:
            if f in out and n not in out:
                out.add(n)
                changed = True
    return out


def _objs(rec, t):
    st = _subtypes(rec, t)
    return [o for o, ot in rec["objects"] if ot[1] in st]


def kstr(k):
    return f"{k[0]}({','.join(k[1])})"


def ground_fluent_keys(rec):
    out = []
    for f in rec["fluents"]:
        doms = [_objs(rec, pt[1]) for _, pt in f["sig"]]
        for combo in product(*doms):
            out.append((f["name"], tuple(combo)))
    return out


def _target_keys(rec, action, eff):
    """ground targets of eff for every instance of action: dict args-tuple -> set of (fluent, args) (None if it cannot be
    determined syntactically, e.g. nested fluents)."""
    pdoms = [_objs(rec, pt[1]) for _, pt in action["params"]]
    vdoms = [_objs(rec, vt[1]) for _, vt in eff.get("forall", [])]
    res = {}
    for pargs in product(*pdoms):
        penv = {pn: a for (pn, _), a in zip(action["params"], pargs)}
        keys = set()
        for vargs in product(*vdoms):
            venv = {vn: a for (vn, _), a in zip(eff.get("forall", []), vargs)}
            targs = []
            for a in eff["fluent"][2:]:
                if a[0] == "o":
                    targs.append(a[1])
                elif a[0] == "p":
                    targs.append(penv[a[1]])
                elif a[0] == "v":
                    targs.append(venv[a[1]])
                else:
                    return None
            keys.add((eff["fluent"][1], tuple(targs)))
        res[pargs] = keys
    return res


def one_effect_per_ground_fluent(rec):
    """Drop effects so that no ground action has two effects on one ground fluent (C30's quantifier)."""
    for a in rec["actions"]:
        kept, seen = [], {}
        for eff in a["effects"]:
            tk = _target_keys(rec, a, eff)
            if tk is None:
                continue
            if any(tk[k] & seen.get(k, set()) for k in tk):
                continue
            for k in tk:
                seen.setdefault(k, set()).update(tk[k])
            kept.append(eff)
        a["effects"] = kept
    return rec


def _directed(rng):
    """Classic conformant shapes: a token at an unknown position with conditional moves; unknown switches with toggles."""
    n = rng.choice([2, 3, 3])
    objs = [[f"c{i}", ["user", "Cell"]] for i in range(n)]
    fl = [{"name": "at", "type": "bool", "sig": [["x0", ["user", "Cell"]]], "default": ["b", False]}, {"name": "ok", "type": "bool", "sig": [], "default": ["b", False]}]
    acts = []
    for i in range(n - 1):
        if rng.random() < 0.85:
            acts.append(
                {
                    "name": f"right{i}",
                    "params": [],
                    "pre": [],
                    "effects": [
                        {"kind": "assign", "fluent": ["f", "at", ["o", f"c{i+1}"]], "value": ["b", True], "cond": ["f", "at", ["o", f"c{i}"]], "forall": []},
                        {"kind": "assign", "fluent": ["f", "at", ["o", f"c{i}"]], "value": ["b", False], "cond": ["f", "at", ["o", f"c{i}"]], "forall": []},
                    ],
                }
            )
    x = rng.random()
    last = ["f", "at", ["o", f"c{n-1}"]]
    if x < 0.35:
        acts.append({"name": "finish", "params": [], "pre": [last], "effects": [{"kind": "assign", "fluent": ["f", "ok"], "value": ["b", True], "cond": None, "forall": []}]})
        goals = [["f", "ok"]]
    elif x < 0.6:
        acts.append(
            {
                "name": "finish",
                "params": [],
                "pre": [["or", last, ["f", "at", ["o", f"c{n-2}"]]]] if rng.random() < 0.5 else [["exists", [["q", ["user", "Cell"]]], ["f", "at", ["v", "q", ["user", "Cell"]]]]],
                "effects": [{"kind": "assign", "fluent": ["f", "ok"], "value": ["b", True], "cond": None, "forall": []}],
            }
        )
        goals = [["f", "ok"]]
    elif x < 0.8:
        acts.append(
            {
                "name": "clear",
                "params": [],
                "pre": [],
                "effects": [{"kind": "assign", "fluent": ["f", "at", ["v", "e", ["user", "Cell"]]], "value": ["b", False], "cond": ["not", ["eq", ["v", "e", ["user", "Cell"]], ["o", f"c{n-1}"]]], "forall": [["e", ["user", "Cell"]]]}],
            }
        )
        goals = [last, ["forall", [["q", ["user", "Cell"]]], ["or", ["eq", ["v", "q", ["user", "Cell"]], ["o", f"c{n-1}"]], ["not", ["f", "at", ["v", "q", ["user", "Cell"]]]]]]]
    else:
        goals = [last]
    rec = {"name": "corridor", "types": [["Cell", None]], "objects": objs, "fluents": fl, "actions": acts, "init": [[["f", "at", ["o", "c0"]], ["b", True]]], "goals": goals, "invariants": []}
    return rec, ["directed-corridor"]


def _prop_holds(e, st):
    """Truth of a propositional recipe literal / conjunction over 0-ary fluents (generator-side only)."""
    if e is None:
        return True
    if e[0] == "f":
        return st[e[1]]
    if e[0] == "not":
        return not _prop_holds(e[1], st)
    if e[0] == "and":
        return all(_prop_holds(a, st) for a in e[1:])
    raise ValueError(e)


def _prop_run(rec, st, skip=()):
    """Apply the recipe's actions once each, in listing order, where applicable (simultaneous conditional effects)."""
    st = dict(st)
    for a in rec["actions"]:
        if a["name"] in skip or not all(_prop_holds(p, st) for p in a["pre"]):
            continue
        nxt = dict(st)
        for e in a["effects"]:
            if _prop_holds(e["cond"], st):
                nxt[e["fluent"][1]] = bool(e["value"][1])
        st = nxt
    return st


def _directed_chain(rng, tries=8):
    """-> (recipe, features, name of the uncertain early-chain atom).  Candidates are re-drawn (up to `tries` times) until the
    uncertainty matters: executing the actions in listing order from two states that differ only in the early atom ends
    with different values of the atom at the end of the chain."""
    out = None
    for _ in range(tries):
        rec, feats = _chain_candidate(rng)
        d = len([f for f in rec["fluents"] if f["name"].startswith("p")]) - 1
        early = f"p{rng.choice([0, 0, 1]) if d > 2 else rng.choice([0, 0, 0, 1])}"
        s0 = {f["name"]: False for f in rec["fluents"]}
        for fe, v in rec["init"]:
            s0[fe[1]] = bool(v[1])
        s1 = dict(s0)
        s1[early] = not s0[early]
        out = (rec, feats, early)
        if _prop_run(rec, s0)[f"p{d}"] != _prop_run(rec, s1)[f"p{d}"]:
            return rec, feats + ["chain-uncertainty-reaches-goal-atom"], early
    return out


def _chain_candidate(rng):
    """Chains of conditional effects over propositional atoms p0 -> p1 -> ... -> pd (depth 2-3): link i is one conditional
    effect "if [not] p_i then p_{i+1} := v" with free polarities (so a dependency may be stated directly or through its
    complement), links spread over 1..d actions in chain order or not, an optional unconditional flag on the action holding
    the last link; goals over the end of the chain (and the flag).  The uncertainty (built in gen_conformant) is about ONE
    early-chain atom, in either listing order."""
    d = rng.choice([2, 2, 3])
    atoms = [f"p{i}" for i in range(d + 1)]
    fl = [{"name": a, "type": "bool", "sig": [], "default": ["b", False]} for a in atoms]
    fl.append({"name": "g", "type": "bool", "sig": [], "default": ["b", False]})
    lit = lambda a, pos: ["f", a] if pos else ["not", ["f", a]]
    links = []
    for i in range(d):
        links.append({"kind": "assign", "fluent": ["f", atoms[i + 1]], "value": ["b", rng.random() < 0.5], "cond": lit(atoms[i], rng.random() < 0.5), "forall": []})
    # distribute the links over actions (each action has at most one effect per atom by construction: distinct targets)
    nact = rng.randint(1, d)
    groups = [[] for _ in range(nact)]
    for i, e in enumerate(links):
        groups[min(i * nact // d, nact - 1) if rng.random() < 0.8 else rng.randrange(nact)].append((i, e))
    acts = []
    flag = rng.random() < 0.65
    for j, grp in enumerate(groups):
        if not grp:
            continue
        effs = [e for _, e in grp]
        if flag and any(i == d - 1 for i, _ in grp):
            effs.append({"kind": "assign", "fluent": ["f", "g"], "value": ["b", True], "cond": None, "forall": []})
        pre = []
        if rng.random() < 0.15:
            pre = [lit("g", False)]
        acts.append({"name": f"step{j}", "params": [], "pre": pre, "effects": effs})
    if rng.random() < 0.3:
        # a second way to touch a middle atom, so that plans differ in what they need to know
        k = rng.randrange(1, d + 1)
        acts.append({"name": "fix", "params": [], "pre": [], "effects": [{"kind": "assign", "fluent": ["f", atoms[k]], "value": ["b", rng.random() < 0.5], "cond": lit(atoms[rng.randrange(0, k)], rng.random() < 0.5) if rng.random() < 0.6 else None, "forall": []}]})
    goals = [lit(atoms[d], rng.random() < 0.5)]
    if flag:
        goals.append(["f", "g"])
    if rng.random() < 0.2:
        goals.append(lit(atoms[rng.randrange(1, d)], rng.random() < 0.5))
    init = [[["f", a], ["b", rng.random() < 0.5]] for a in atoms]
    rec = {"name": "chain", "types": [["T0", None]], "objects": [["o0", ["user", "T0"]]], "fluents": fl, "actions": acts, "init": init, "goals": goals, "invariants": []}
    return rec, ["directed-chain", "conditional-effect", "negation", f"chain-depth:{d}"]


def _signed_group(rng, atoms, neg):
    """Literals [[key, positive]] over the given atoms; each is negative with probability `neg`."""
    return [[list(k), rng.random() >= neg] for k in atoms]


def _threat_restore(rng):
    """A target literal that is KNOWN initially (same value in every initial state), threatened by an effect conditioned on
    an unknown atom and restored only case by case:  x: q := T, when [not] u: p := not v   /   y: when [not] u: p := v,
    goal (p == v) and q.  [x, y] is conformant; the compiled problem needs the merge for the initially known literal.
    Variations: polarity of p and of the conditions, the restoring effect split over two actions (one per case), the target
    as a precondition of a final action instead of a goal, a distractor action."""
    v = rng.random() < 0.5  # the known initial value of p
    upos = rng.random() < 0.5
    lit = lambda a, pos: ["f", a] if pos else ["not", ["f", a]]
    fl = [{"name": n, "type": "bool", "sig": [], "default": ["b", False]} for n in ("u", "p", "q", "r")]
    eff = lambda f, val, cond: {"kind": "assign", "fluent": ["f", f], "value": ["b", val], "cond": cond, "forall": []}
    acts = [{"name": "x", "params": [], "pre": [], "effects": [eff("q", True, None), eff("p", not v, lit("u", upos))]}]
    if rng.random() < 0.5:
        acts.append({"name": "y", "params": [], "pre": [], "effects": [eff("p", v, lit("u", upos))]})
    else:  # restore in both cases, one action per case (only one of them matters, the other is harmless)
        acts.append({"name": "y", "params": [], "pre": [], "effects": [eff("p", v, lit("u", upos))]})
        acts.append({"name": "y2", "params": [], "pre": [], "effects": [eff("p", v, lit("u", not upos))]})
    goals = [lit("q", True)]
    if rng.random() < 0.5:
        goals.append(lit("p", v))
    else:  # the known literal is needed as a precondition
        acts.append({"name": "z", "params": [], "pre": [lit("p", v), lit("q", True)], "effects": [eff("r", True, None)]})
        goals = [lit("r", True)]
    if rng.random() < 0.4:
        acts.append({"name": "d", "params": [], "pre": [], "effects": [eff("q", False, lit("p", not v))]})
    rng.shuffle(acts)
    init = [[["f", "u"], ["b", rng.random() < 0.5]], [["f", "p"], ["b", v]], [["f", "q"], ["b", False]], [["f", "r"], ["b", False]]]
    rec = {"name": "threat", "types": [["T0", None]], "objects": [["o0", ["user", "T0"]]], "fluents": fl, "actions": acts, "init": init, "goals": goals, "invariants": []}
    return rec, ["directed-threat-restore", "conditional-effect", "initially-known-target-" + ("true" if v else "false")]


def gen_conformant(rng, directed=0.2, contingent=0.38, chain=0.25, threat=0.08):
    """-> (recipe, features, uncertainty) with uncertainty =
    {"mode": "explicit", "states": [{"f(a,b)": bool, ...}, ...]} (keys are kstr(k) for k in ground_fluent_keys) or
    {"mode": "contingent", "oneof": [[[key, positive], ...]], "or": [...], "unknown": [key, ...]}"""
    u = rng.random()
    if u < directed:
        rec, feats = _directed(rng)
    elif u < directed + chain:
        rec, feats, early_name = _directed_chain(rng)
    elif u < directed + chain + threat:
        rec, feats = _threat_restore(rng)
    else:
        rec, feats = gen_problem(rng, PROFILE)
        feats = list(feats)
    one_effect_per_ground_fluent(rec)
    keys = ground_fluent_keys(rec)
    base = {}
    for f in rec["fluents"]:
        for k in keys:
            if k[0] == f["name"]:
                base[k] = bool(f["default"][1]) if f.get("default") else False
    for fe, v in rec["init"]:
        k = (fe[1], tuple(a[1] for a in fe[2:]))
        if k in base:
            base[k] = bool(v[1])
    # make the recipe's own initial state total (the compiler requires defined Boolean values for non-hidden fluents)
    rec["init"] = [[["f", k[0]] + [["o", a] for a in k[1]], ["b", v]] for k, v in base.items()]
    if "directed-corridor" in feats:
        cells = [k for k in keys if k[0] == "at"]
        if rng.random() < contingent:
            hidden = cells if rng.random() < 0.6 else rng.sample(cells, max(2, len(cells) - 1))
            unc = {"mode": "contingent", "oneof": [[[list(k), True] for k in hidden]], "or": [], "unknown": []}
            return rec, feats + ["contingent", "oneof"], unc
        states = []
        for k in rng.sample(cells, rng.randint(1, len(cells))):
            s = dict(base)
            for c in cells:
                s[c] = c == k
            states.append(s)
        if rng.random() < 0.3:
            s = dict(rng.choice(states))
            s[("ok", ())] = True
            states.append(s)
        return rec, feats, {"mode": "explicit", "states": [{kstr(k): v for k, v in s.items()} for s in states]}
    if "directed-threat-restore" in feats:
        uk = ("u", ())
        if rng.random() < 0.5:
            return rec, feats + ["contingent", "unknown"], {"mode": "contingent", "oneof": [], "or": [], "unknown": [list(uk)]}
        s0, s1 = dict(base), dict(base)
        s1[uk] = not s0[uk]
        states = [s0, s1] if rng.random() < 0.5 else [s1, s0]
        return rec, feats + ["explicit-two-states"], {"mode": "explicit", "states": [{kstr(k): v for k, v in s.items()} for s in states]}
    if "directed-chain" in feats:
        chain_atoms = [k for k in keys if k[0].startswith("p")]
        early = next(k for k in chain_atoms if k[0] == early_name)
        if rng.random() < contingent:
            unc = {"mode": "contingent", "oneof": [], "or": [], "unknown": []}
            x = rng.random()
            fs = ["contingent"]
            others = [k for k in chain_atoms if k != early]
            grp = [early] + rng.sample(others, rng.randint(1, min(2, len(others))))
            rng.shuffle(grp)
            if x < 0.3:
                unc["unknown"].append(list(early))
                fs.append("unknown")
            elif x < 0.75:
                unc["oneof"].append(_signed_group(rng, grp, 0.45))
                fs.append("oneof")
            else:
                unc["or"].append(_signed_group(rng, grp, 0.45))
                fs.append("or")
            for grp_name in ("oneof", "or"):
                if any(not pos for g in unc[grp_name] for _, pos in g):
                    fs.append(grp_name + "-negative-literal")
            return rec, feats + fs, unc
        # explicit: states that differ in exactly one early-chain atom, in either listing order (+ sometimes a third one)
        s0 = dict(base)
        s1 = dict(base)
        s1[early] = not s0[early]
        states = [s0, s1]
        if rng.random() < 0.5:
            states.reverse()
        if rng.random() < 0.3:
            s2 = dict(rng.choice(states))
            k = rng.choice(keys)
            s2[k] = not s2[k]
            states.insert(rng.randint(0, 2), s2)
        fs = ["states-differ-in-one-early-chain-atom", "first-state-has-early-atom-" + ("true" if states[0][early] else "false")]
        return rec, feats + fs, {"mode": "explicit", "states": [{kstr(k): v for k, v in s.items()} for s in states]}
    if rng.random() < contingent and len(keys) >= 2:
        unc = {"mode": "contingent", "oneof": [], "or": [], "unknown": []}
        pool = list(keys)
        rng.shuffle(pool)
        pool = pool[: rng.randint(2, min(4, len(pool)))]
        x = rng.random()
        fs = ["contingent"]
        if x < 0.35 and len(pool) >= 2:
            g = pool[: rng.randint(2, len(pool))]
            unc["oneof"].append(_signed_group(rng, g, rng.choice([0.0, 0.3, 0.5])))
            fs.append("oneof")
            for k in pool[len(g) :]:
                unc["unknown"].append(list(k))
                fs.append("unknown")
        elif x < 0.75 and len(pool) >= 2:
            g = pool[: rng.randint(2, len(pool))]
            unc["or"].append(_signed_group(rng, g, rng.choice([0.0, 0.3, 0.5])))
            fs.append("or")
            if rng.random() < 0.4 and len(g) >= 2:
                unc["oneof"].append(_signed_group(rng, g[:2], rng.choice([0.0, 0.0, 0.4])))
                fs.append("oneof")
                fs.append("oneof+or-shared-atoms")
        else:
            for k in pool[:3]:
                unc["unknown"].append(list(k))
            fs.append("unknown")
        for grp_name in ("oneof", "or"):
            if any(not pos for g in unc[grp_name] for _, pos in g):
                fs.append(grp_name + "-negative-literal")
        return rec, feats + fs, unc
    n = rng.choice([1, 2, 2, 3, 3, 4])
    states = []
    for i in range(n):
        s = dict(base)
        x = rng.random()
        if x < 0.6 and keys:
            for k in rng.sample(keys, min(len(keys), rng.choice([1, 1, 2]))):
                s[k] = not s[k]
        elif x < 0.8:
            for k in keys:
                s[k] = rng.random() < 0.5
        states.append(s)
    if rng.random() < 0.2 and states:
        states.append(dict(rng.choice(states)))  # duplicate (exercises de-duplication)
    return rec, feats, {"mode": "explicit", "states": [{kstr(k): v for k, v in s.items()} for s in states]}

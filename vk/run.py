"""Driver: `python -m vk.run C07 --tier quick|thorough` or `python -m vk.run C07 --replay file`.

Shards run as separate processes (subprocess + timeout; no multiprocessing.Pool, which hangs if a child dies).
Exit codes: 0 held (possibly with KNOWN-FINDING lines), 1 violation (VIOLATION lines), 3 inconclusive.
"""
import argparse
import importlib
import json
import os
import subprocess
import sys
import tempfile
import time
from concurrent.futures import ThreadPoolExecutor

from vk.core import Result, jdump, h, seed_from_env

ROOT = os.path.dirname(os.path.dirname(os.path.abspath(__file__)))
EVID = os.path.join(ROOT, "evidence")
REPLAY = os.path.join(ROOT, "out", "replay")
KNOWN = os.path.join(ROOT, "known_findings.json")


def load_known(prop):
    try:
        with open(KNOWN) as f:
            data = json.load(f)
    except FileNotFoundError:
        return {}
    return {
        k["mechanism"]: k
        for k in data.get("findings", [])
        if k.get("property") == prop and k.get("status", "known") == "known"
    }


def run_one_shard(prop, spec, workdir, idx, timeout):
    sp = os.path.join(workdir, f"spec{idx}.json")
    op = os.path.join(workdir, f"out{idx}.json")
    with open(sp, "w") as f:
        f.write(jdump(spec))
    t0 = time.time()
    env = dict(os.environ)
    # hash-order diversity: in the thorough tier (or with VK_HASHSEEDS=1) every odd shard runs under its own PYTHONHASHSEED, so
    # that behaviour depending on the iteration order of sets of names/fluents/objects is exercised; the seed is stored in
    # every witness (vk.shard) and --replay re-executes itself under it. Even shards keep PYTHONHASHSEED=0.
    hs_mode = os.environ.get("VK_HASHSEEDS", "auto")
    if hs_mode != "0" and idx % 2 == 1 and (hs_mode == "1" or spec.get("tier") == "thorough"):
        env["PYTHONHASHSEED"] = str(1 + (idx * 7919 + int(spec.get("seed", 0) or 0) * 104729) % 99991)
    try:
        p = subprocess.run(
            [sys.executable, "-m", "vk.shard", prop, sp, op],
            env=env,
            timeout=timeout,
            stdout=subprocess.PIPE,
            stderr=subprocess.PIPE,
            cwd=ROOT,
        )
        if p.returncode != 0 or not os.path.exists(op):
            return {
                "failed": f"shard {idx} exit={p.returncode} stderr={p.stderr.decode(errors='replace')[-2000:]}"
            }
        with open(op) as f:
            out = json.load(f)
        out["shard_wall_s"] = time.time() - t0
        return out
    except subprocess.TimeoutExpired:
        return {"failed": f"shard {idx} watchdog timeout after {timeout}s"}


def merge(prop, outs):
    m = {
        "evaluations": 0,
        "monitor_evals": 0,
        "nontrivial": set(),
        "counters": {},
        "samples": [],
        "violations": [],
        "harness_errors": [],
        "failed_shards": [],
    }
    for o in outs:
        if "failed" in o:
            m["failed_shards"].append(o["failed"])
            continue
        m["evaluations"] += o["evaluations"]
        m["monitor_evals"] += o["monitor_evals"]
        m["nontrivial"].update(o["nontrivial"])
        for k, v in o["counters"].items():
            m["counters"][k] = m["counters"].get(k, 0) + v
        for s in o["samples"]:
            if len(m["samples"]) < 5:
                m["samples"].append(s)
        m["violations"].extend(o["violations"])
        m["harness_errors"].extend(o["harness_errors"])
    return m


def report(prop, mod, m, tier, seed, wall, write_evidence=True):
    known = load_known(prop)
    os.makedirs(REPLAY, exist_ok=True)
    known_hit = {}
    new = []
    prefixes = [k for k, e in known.items() if e.get("prefix")]
    for v in m["violations"]:
        mk = v["mechanism"] if v["mechanism"] in known else next((p for p in prefixes if v["mechanism"].startswith(p)), None)
        if mk is not None:
            known_hit.setdefault(mk, []).append(v)
        else:
            new.append(v)
    inconclusive = []
    if m["failed_shards"]:
        inconclusive.extend(m["failed_shards"])
    if m["harness_errors"]:
        inconclusive.append(
            "harness errors: " + "; ".join(f"{e['where']}: {e['exc']}" for e in m["harness_errors"][:3])
        )
    if m["evaluations"] == 0 or m["monitor_evals"] == 0:
        inconclusive.append("the deciding monitor was never evaluated")
    try:
        inconclusive.extend(mod.thresholds(m))
    except Exception as e:  # noqa
        inconclusive.append(f"threshold evaluation failed: {e!r}")

    lines = []
    for mech, vs in sorted(known_hit.items()):
        lines.append(f"KNOWN-FINDING: property={prop} {known[mech]['what']} [mechanism={mech}, {len(vs)} witness(es) this run]")
    seen = set()
    per_mech = {}
    for v in new:
        key = h(v["witness"])
        if key in seen:
            continue
        seen.add(key)
        k = per_mech.setdefault(v["mechanism"], [0])
        k[0] += 1
        if k[0] > 3 or len(lines) > 80:
            continue  # at most 3 replay files per distinct mechanism: rare mechanisms are never hidden behind common ones
        path = os.path.join(REPLAY, f"{prop}-{key}.json")
        with open(path, "w") as f:
            f.write(jdump({"property": prop, **v}, indent=1))
        rel = os.path.relpath(path, ROOT)
        lines.append(f"VIOLATION property={prop} replay={rel}  # {v['mechanism']}: {v['summary'][:300]}")
    mech_counts = {}
    for v in m["violations"]:
        mech_counts[v["mechanism"]] = mech_counts.get(v["mechanism"], 0) + 1
    status = "violated" if new else ("inconclusive" if inconclusive else "held")
    if status == "inconclusive":
        for r in inconclusive:
            lines.append(f"INCONCLUSIVE property={prop} reason={r[:600]}")

    if os.environ.get("VK_REPO"):
        write_evidence = False  # self-test against a scratch copy: evidence must only ever describe runs against /repo itself
    if write_evidence:
        os.makedirs(EVID, exist_ok=True)
        nt = len(m["nontrivial"])
        ev = {
            "property_id": prop,
            "tier": tier,
            "seed": seed,
            "level": getattr(mod, "LEVEL", "exploration"),
            "coverage": {
                "evaluations": m["evaluations"],
                "distinct_nontrivial": nt,
                "rule": mod.RULE,
                "samples": m["samples"] or ["<none>"],
                "monitor_evaluations": m["monitor_evals"],
                "counters": dict(sorted(m["counters"].items())),
                "known_findings_matched": {k: len(v) for k, v in known_hit.items()},
                "violation_mechanisms": dict(sorted(mech_counts.items())),
                "verdict": status,
                "inconclusive_reasons": inconclusive,
                "technique": getattr(mod, "TECHNIQUE", ""),
            },
            "assumptions": list(getattr(mod, "ASSUMPTIONS", [])),
            "wall_s": round(wall, 2),
            "violations": len(seen),
        }
        if getattr(mod, "EXHAUSTIVE", None) and m["counters"].get("exhaustive_space_complete"):
            ev["coverage"]["exhaustive"] = True
        extra = getattr(mod, "extra_coverage", None)
        if extra:
            try:
                ev["coverage"].update(extra(m))
            except Exception:
                pass
        with open(os.path.join(EVID, f"{prop}.json"), "w") as f:
            f.write(jdump(ev, indent=1))
    for l in lines:
        print(l)
    if mech_counts:
        print("MECHANISMS " + prop + " " + "; ".join(f"{k} x{v}{' [known]' if (k in known or any(k.startswith(p) for p in prefixes)) else ''}" for k, v in sorted(mech_counts.items())))
    print(
        f"{prop} {tier} seed={seed}: {status}; evaluations={m['evaluations']} monitor_evals={m['monitor_evals']} "
        f"distinct_nontrivial={len(m['nontrivial'])} known={sum(len(v) for v in known_hit.values())} new_violations={len(seen)} wall={wall:.1f}s"
    )
    return {"violated": 1, "inconclusive": 3, "held": 0}[status]


def main():
    ap = argparse.ArgumentParser()
    ap.add_argument("prop")
    ap.add_argument("--tier", default=os.environ.get("VERIF_TIER", "quick"))
    ap.add_argument("--replay")
    ap.add_argument("--jobs", type=int, default=int(os.environ.get("VERIF_JOBS", "16")))
    a = ap.parse_args()
    prop = a.prop.upper()
    mod = importlib.import_module(f"vk.checks.{prop.lower()}")
    seed = seed_from_env()
    t0 = time.time()
    if a.replay:
        with open(a.replay) as f:
            w = json.load(f)
        hs = str(w["witness"].get("pyhashseed", "0"))
        if os.environ.get("PYTHONHASHSEED", "0") != hs:
            os.environ["PYTHONHASHSEED"] = hs
            os.execv(sys.executable, [sys.executable, "-m", "vk.run"] + sys.argv[1:])
        res = Result(prop)
        os.environ["VK_VERBOSE"] = "1"
        mod.replay(w["witness"], res)
        out = res.to_json()
        if out["violations"]:
            for v in out["violations"]:
                print(f"REPRODUCED property={prop} mechanism={v['mechanism']}: {v['summary']}")
            sys.exit(1)
        print(f"NOT-REPRODUCED property={prop}")
        sys.exit(0)
    tier = a.tier if a.tier in ("quick", "thorough") else "quick"
    specs = mod.plan(tier, seed)
    timeout = getattr(mod, "SHARD_TIMEOUT", {"quick": 900, "thorough": 7200})[tier]
    with tempfile.TemporaryDirectory(prefix=f"vk-{prop}-", dir=os.path.join(ROOT, "out")) as wd:
        with ThreadPoolExecutor(max_workers=a.jobs) as ex:
            outs = list(ex.map(lambda it: run_one_shard(prop, it[1], wd, it[0], timeout), enumerate(specs)))
    m = merge(prop, outs)
    sys.exit(report(prop, mod, m, tier, seed, time.time() - t0))


if __name__ == "__main__":
    main()

"""M-compile-wf (C08, C09): boundary judgement of `CompilerMixin.compile` calls — owner: factory-wf.

* `TARGETS` — the compilers under test with a generator profile restricted to their supported kind;
* `build_case(key, target)` — generated problem (adversarial identifiers, `vk.gen.idents`) inside the compiler's kind;
* `observe_compile(compiler, problem)` — runs the real `compile` and classifies the outcome
  (returned / documented rejection / undocumented exception);
* well-formedness predicates over the returned problem (`wf_violations`), written against read-only accessors only;
* `back_conversion_violations` — usability of `plan_back_conversion` / `map_back_action_instance`;
* `kind_violations` — C09: declared resulting kind over-approximates the compiled kind.
"""
import copy

from vk import env as _env
from vk.core import rng_for, h
from vk.gen.problem import gen_problem
from vk.gen import idents
from vk.recipe import instantiate_problem
from vk.checks.c08_rejections import documented


def _cls(path, name):
    import importlib

    return getattr(importlib.import_module(path), name)


P = "unified_planning.engines.compilers."
# name -> (module, class, compilation kind, profile overrides, recipe post-processing flags)
NO_UNDEF = dict(undefined_init=0.0)
TARGETS = {
    "grounder": (P + "grounder", "Grounder", "GROUNDING", dict(interpreted_functions=0.1, undefined_init=0.2, traj=0.2, int_params=0.2, metric_p=0.4, max_params=3), {"join_trap": 0.5}),
    "cerm": (P + "conditional_effects_remover", "ConditionalEffectsRemover", "CONDITIONAL_EFFECTS_REMOVING", dict(NO_UNDEF, int_params=0.1, metric_p=0.4), {"force_cond": True}),
    "dcrm": (P + "disjunctive_conditions_remover", "DisjunctiveConditionsRemover", "DISJUNCTIVE_CONDITIONS_REMOVING", dict(NO_UNDEF, invariants=0.0, int_params=0.1, metric_p=0.4), {}),
    "ncrm": (P + "negative_conditions_remover", "NegativeConditionsRemover", "NEGATIVE_CONDITIONS_REMOVING", dict(NO_UNDEF, traj=0.15, metric_p=0.4), {}),
    "qurm": (P + "quantifiers_remover", "QuantifiersRemover", "QUANTIFIERS_REMOVING", dict(NO_UNDEF, traj=0.15, int_params=0.1, metric_p=0.4), {}),
    "utfr": (P + "usertype_fluents_remover", "UsertypeFluentsRemover", "USERTYPE_FLUENTS_REMOVING", dict(NO_UNDEF, traj=0.15, metric_p=0.4), {}),
    "btrm": (P + "bounded_types_remover", "BoundedTypesRemover", "BOUNDED_TYPES_REMOVING", dict(NO_UNDEF, int_params=0.1, metric_p=0.4), {}),
    "gcrm": (P + "state_invariants_remover", "StateInvariantsRemover", "STATE_INVARIANTS_REMOVING", dict(NO_UNDEF, invariants=0.85, traj=0.2, metric_p=0.3), {}),
    "tcrm": (
        P + "trajectory_constraints_remover",
        "TrajectoryConstraintsRemover",
        "TRAJECTORY_CONSTRAINTS_REMOVING",
        dict(NO_UNDEF, traj=0.9, numeric=False, forall_effects=False, invariants=0.15, int_params=0.15, max_objects=3, metric_p=0.0),
        {"join_trap": 0.3},
    ),
    "uinrm": (
        P + "undefined_initial_numeric_remover",
        "UndefinedInitialNumericRemover",
        "UNDEFINED_INITIAL_NUMERIC_REMOVING",
        dict(undefined_init=0.6, forall_effects=False, invariants=0.0, metric_p=0.3, metric_choices=["costs", "length", "minfinal", "maxfinal"]),
        {"define_symbolic": True},
    ),
}
# compilers outside the ten classical removers (C08: "every compiler"): temporal problems come from vk/gen/durative_cm.py
TARGETS.update(
    {
        "t2s": (P + "timed_to_sequential", "TimedToSequential", "TIMED_TO_SEQUENTIAL", {}, {"gen": "durative", "probe": "valid-sequential"}),
        "da2p": (P + "durative_actions_to_processes", "DurativeActionToProcesses", "DURATIVE_ACTIONS_TO_PROCESSES", {}, {"gen": "durative", "probe": "time-triggered"}),
        "ifrm": (
            P + "interpreted_functions_remover",
            "InterpretedFunctionsRemover",
            "INTERPRETED_FUNCTIONS_REMOVING",
            # no MinimizeActionCosts: the compiler leaves the metric keyed by the *original* actions (reported as a candidate
            # finding "ill-formed:metric-foreign-action:ifrm"; add "costs" to metric_choices to observe it)
            dict(NO_UNDEF, interpreted_functions=0.7, invariants=0.15, int_params=0.1, metric_p=0.3, metric_choices=["length", "minfinal", "maxfinal", "oversub"]),
            {},
        ),
    }
)
EXTRA_TARGETS = ["t2s", "da2p", "ifrm"]
TARGET_ORDER = ["grounder", "cerm", "dcrm", "ncrm", "qurm", "utfr", "btrm", "gcrm", "tcrm", "uinrm"]
# compilation kinds with a registered engine in the default factory (TRAJECTORY_CONSTRAINTS_REMOVING has none)
PIPELINE_KINDS = [
    "GROUNDING",
    "CONDITIONAL_EFFECTS_REMOVING",
    "DISJUNCTIVE_CONDITIONS_REMOVING",
    "NEGATIVE_CONDITIONS_REMOVING",
    "QUANTIFIERS_REMOVING",
    "USERTYPE_FLUENTS_REMOVING",
    "BOUNDED_TYPES_REMOVING",
    "STATE_INVARIANTS_REMOVING",
    "UNDEFINED_INITIAL_NUMERIC_REMOVING",
]
PIPELINE_PROFILE = dict(undefined_init=0.0, traj=0.0, invariants=0.25, int_params=0.1, metric_p=0.3)
NAME_CREATING = {"grounder", "cerm", "dcrm", "ncrm", "tcrm", "uinrm"}
LABEL_OF_CLASS = {v[1]: k for k, v in TARGETS.items()}
# every compilation kind with a registered engine for single-agent action-based problems (C09 pipelines)
ALL_PIPELINE_KINDS = PIPELINE_KINDS + ["TIMED_TO_SEQUENTIAL", "DURATIVE_ACTIONS_TO_PROCESSES", "INTERPRETED_FUNCTIONS_REMOVING"]


def probe_of(label):
    """How the plan back-conversion of this compiler is probed (see back_conversion_violations)."""
    return TARGETS[label][4].get("probe", "map-back") if label in TARGETS else "map-back"


def compiler_class(target):
    mod, cls = TARGETS[target][0], TARGETS[target][1]
    return _cls(mod, cls)


def instantiate_any(rec, env):
    """vk.recipe.instantiate_problem, plus problem-level timed effects for durative recipes (vk.gen.temporal.instantiate)."""
    if rec.get("timed_effects"):
        from vk.gen.temporal import instantiate

        return instantiate(rec, env)
    return instantiate_problem(rec, env)


# ---- case construction ----------------------------------------------------------------------------------
def _define_symbolic(rec, rng):
    """Give every Boolean / object fluent a default (UNDEFINED_INITIAL_SYMBOLIC is outside uinrm's kind)."""
    objs = {}
    for o, t in rec["objects"]:
        objs.setdefault(t[1], []).append(o)
    fathers = dict((n, f) for n, f in rec["types"])

    def objs_of(t):
        out = []
        for o, ot in rec["objects"]:
            x = ot[1]
            while x is not None:
                if x == t:
                    out.append(o)
                    break
                x = fathers.get(x)
        return out

    for f in rec["fluents"]:
        if f["default"] is None:
            if f["type"] == "bool":
                f["default"] = ["b", rng.random() < 0.5]
            elif f["type"][0] == "user":
                os_ = objs_of(f["type"][1])
                if os_:
                    f["default"] = ["o", rng.choice(os_)]


def _force_conditional(rec, rng):
    """Make sure at least one action has a conditional effect (cerm only rewrites those)."""
    for a in rec["actions"]:
        for e in a["effects"]:
            if e.get("cond") is not None:
                return
    bf = [f for f in rec["fluents"] if f["type"] == "bool" and not f["sig"]]
    if not bf:
        return
    a = rng.choice(rec["actions"])
    if a["effects"]:
        e = rng.choice(a["effects"])
        if not e.get("forall"):
            e["cond"] = ["f", rng.choice(bf)["name"]]


def _is_start_end(t):
    return t[0] in ("start", "end") and t[1] in ("0", "-0")


def strip_intermediate(rec):
    """Durative recipe -> the start / end / over-all fragment (TimedToSequential's kind has neither intermediate
    conditions / effects nor timed effects)."""
    rec.pop("timed_effects", None)
    for a in rec["actions"]:
        if "duration" not in a:
            continue
        a["conds"] = [[iv, c] for iv, c in a["conds"] if all(_is_start_end(t) for t in iv[1:])]
        a["effects"] = [[t, e] for t, e in a["effects"] if _is_start_end(t)]
        if not a["effects"]:
            a["effects"].append([["end", "0"], {"kind": "assign", "fluent": ["f", "p0"], "value": ["b", True]}])


def avoid_da2p_interval_condition_defect(rec):
    """Known finding of C29 (DurativeActionToProcesses asserts on a non-fixed duration together with a non-point condition
    interval ending at `end`): such actions get their duration fixed at the lower bound, so that C08 observes the
    rest of the compiler instead of re-reporting that defect under another name."""
    n = 0
    for a in rec["actions"]:
        if "duration" in a and a["duration"][0] != "fixed":
            if any(iv[0] != "point" and iv[2][0] == "end" for iv, _ in a["conds"]):
                a["duration"] = ["fixed", a["duration"][1]]
                n += 1
    return n


def gen_durative(rng, fragment):
    """(recipe, features) of a small durative problem: fragment "t2s" (start/end/over-all only), "da2p" or "full"."""
    from vk.gen.durative_cm import gen_durative_problem

    rec, feats = gen_durative_problem(rng)
    if fragment == "t2s":
        strip_intermediate(rec)
    elif fragment == "da2p":
        avoid_da2p_interval_condition_defect(rec)
    return rec, feats


def _force_object_fluent(rec, rng):
    """Make sure an object-valued fluent exists and is assigned a *non-constant* value (an action parameter) by some action
    (UsertypeFluentsRemover only has work to do - and only then produces the conditional effects it declares - for those).
    Works on instantaneous and durative action recipes."""
    fathers = dict((n, f) for n, f in rec["types"])

    def is_sub(t, anc):
        while t is not None:
            if t == anc:
                return True
            t = fathers.get(t)
        return False

    cands = []  # (action, param name, fluent) with param type <= fluent type, nullary object fluents only
    ofl = [f for f in rec["fluents"] if isinstance(f["type"], list) and f["type"][0] == "user" and not f["sig"]]
    for a in rec["actions"]:
        for pn, pt in a["params"]:
            if isinstance(pt, list) and pt[0] == "user":
                for f in ofl:
                    if is_sub(pt[1], f["type"][1]):
                        cands.append((a, pn, f))
    if not cands:
        ups = [(a, pn, pt) for a in rec["actions"] for pn, pt in a["params"] if isinstance(pt, list) and pt[0] == "user"]
        if not ups:
            return False
        a, pn, pt = rng.choice(ups)
        objs = [o for o, ot in rec["objects"] if is_sub(ot[1], pt[1])]
        if not objs:
            return False
        used = {n for n, _ in rec["types"]} | {n for n, _ in rec["objects"]} | {f["name"] for f in rec["fluents"]} | {x["name"] for x in rec["actions"]}
        name = next(n for n in ("at", "at_0", "loc_of", "holder", "of0", "of1") + tuple(f"of{k}" for k in range(2, 50)) if n not in used)
        f = {"name": name, "type": ["user", pt[1]], "sig": [], "default": ["o", rng.choice(objs)]}
        rec["fluents"].append(f)
        cands = [(a, pn, f)]
    a, pn, f = rng.choice(cands)
    fe = ["f", f["name"]]
    eff = {"kind": "assign", "fluent": fe, "value": ["p", pn], "cond": None, "forall": []}
    if "duration" in a:
        if any(e["fluent"] == fe for _, e in a["effects"]):
            return True
        a["effects"].append([["end", "0"], eff])
        if rng.random() < 0.5:
            a["conds"].append([["point", ["start", "0"]], ["not", ["eq", fe, ["p", pn]]]])
    else:
        if any(e["fluent"] == fe for e in a["effects"]):
            return True
        a["effects"].append(eff)
        if rng.random() < 0.5:
            a["pre"].append(["not", ["eq", fe, ["p", pn]]])
    return True


def class_of_kind(ck_name):
    """The compiler class the default factory registers for a compilation kind (single-agent problems)."""
    for t, row in TARGETS.items():
        if row[2] == ck_name and ck_name in ALL_PIPELINE_KINDS:
            return compiler_class(t)
    return None


TEMPORAL_KINDS = ("TIMED_TO_SEQUENTIAL", "DURATIVE_ACTIONS_TO_PROCESSES")


def build_case(key, target, tries=6, require=None):
    """-> dict(rec, feats, pb, rejected=<count>, why=[...]) ; pb None when no recipe inside the kind was found.
    `require` (pipelines only): a sequence of compilation-kind names; the problem is then drawn for that request: durative
    problems (vk/gen/durative_cm.py) are mixed in, the features that give the requested stages something to do are forced
    with some probability, and recipes are regenerated until every requested stage's compiler supports the problem's kind
    (when no such recipe is found in `tries` attempts the last buildable one is used: pipelines whose later stages only
    support the chained kind are cases too)."""
    from unified_planning.exceptions import UPException

    rng = rng_for(key, "build")
    stage_classes = []
    if target == "pipeline":
        prof, flags, Comp = dict(PIPELINE_PROFILE), {"join_trap": 0.3}, None
        if require:
            stage_classes = [c for c in (class_of_kind(ck) for ck in require) if c is not None]
            tries = max(tries, 8)
    else:
        prof, flags = dict(TARGETS[target][3]), TARGETS[target][4]
        Comp = compiler_class(target)
    metric_p = prof.pop("metric_p", 0.0)
    metric_choices = prof.pop("metric_choices", None)
    why = []
    fallback = None
    temporal = bool(require) and any(ck in TEMPORAL_KINDS for ck in require)
    strict = bool(stage_classes) and rng.random() < 0.7  # else: the first stage must support the input, later ones may rely on the chained kind
    for t in range(tries):
        pf = dict(prof)
        if target == "pipeline" and rng.random() < 0.4:
            pf["negatives"] = False  # kinds without NEGATIVE_CONDITIONS: stages that introduce `not` become observable
        pf["names"] = idents.make_names()
        if rng.random() < metric_p:
            pf["metric"] = rng.choice(metric_choices) if metric_choices else "any"
        durative = False
        if flags.get("gen") == "durative":
            rec, feats = gen_durative(rng, target)
        elif require and rng.random() < (0.65 if temporal else 0.12):
            durative = True
            rec, feats = gen_durative(rng, "t2s" if "TIMED_TO_SEQUENTIAL" in require or rng.random() < 0.3 else "da2p")
        else:
            if temporal:
                # the temporal compilers support neither conditional effects nor invariants (and the processes compiler no
                # quantifiers / forall effects): stay near their kinds, regeneration does the rest
                pf.update(cond_effects=False, invariants=0.0, interpreted_functions=0.0)
                if "DURATIVE_ACTIONS_TO_PROCESSES" in require:
                    pf.update(quantifiers=False, forall_effects=False)
            # NB interpreted functions are not forced for INTERPRETED_FUNCTIONS_REMOVING requests: the remover leaves calls in
            # goals while declaring INTERPRETED_FUNCTIONS_IN_CONDITIONS removed (reported as a candidate finding), so that every
            # such pipeline would re-report that one defect as "pipeline-rejects-intermediate"
            if require and "UNDEFINED_INITIAL_NUMERIC_REMOVING" in require and rng.random() < 0.5:
                pf["undefined_init"] = 0.5
            rec, feats = gen_problem(rng, pf)
        if flags.get("define_symbolic") or (require and "UNDEFINED_INITIAL_NUMERIC_REMOVING" in require and not durative):
            _define_symbolic(rec, rng)
        if flags.get("force_cond") or (require and "CONDITIONAL_EFFECTS_REMOVING" in require and not durative and rng.random() < 0.5):
            _force_conditional(rec, rng)
        if require and "USERTYPE_FLUENTS_REMOVING" in require and rng.random() < 0.75:
            _force_object_fluent(rec, rng)
        idents.rename_locals(rec, rng)
        if (target == "uinrm" or (require and "UNDEFINED_INITIAL_NUMERIC_REMOVING" in require and not durative)) and rng.random() < 0.35:
            idents.inject_derived_name_trap(rec, rng)
        if (target == "ncrm" or (require and "NEGATIVE_CONDITIONS_REMOVING" in require and not durative)) and rng.random() < 0.3:
            idents.inject_negation_name_trap(rec, rng)
        if flags.get("join_trap") and not durative and rng.random() < flags["join_trap"]:
            idents.inject_join_trap(rec, rng)
        e = _env.fresh_env()
        try:
            pb, ctx = instantiate_any(copy.deepcopy(rec), e)
        except UPException as ex:
            why.append("build:" + type(ex).__name__)
            continue
        try:
            kind = pb.kind
        except Exception as ex:  # C10's business; not a case for C08/C09
            why.append("kind-raises:" + type(ex).__name__)
            continue
        if Comp is not None and not Comp.supports(kind):
            why.append("unsupported:" + ",".join(sorted(kind.features - Comp.supported_kind().features)))
            continue
        case = dict(rec=rec, feats=feats, pb=pb, env=e, kind=kind, rejected=t, why=why, all_stages_support=True)
        if stage_classes and not all(c.supports(kind) for c in stage_classes):
            case["all_stages_support"] = False
            if strict or not stage_classes[0].supports(kind):
                why.append("unsupported-by-some-stage")
                fallback = case
                continue
        return case
    if fallback is not None:
        fallback["rejected"] = tries - 1
        return fallback
    return dict(rec=None, feats=None, pb=None, env=None, kind=None, rejected=tries, why=why)


# ---- observing compile -------------------------------------------------------------------------------------
def innermost_compiler(exc):
    """(class name of the innermost `_compile`/`compile` frame, innermost library function name)."""
    tb = exc.__traceback__
    comp, site = None, None
    while tb is not None:
        code = tb.tb_frame.f_code
        if "unified_planning" in code.co_filename:
            qn = getattr(code, "co_qualname", code.co_name)
            site = qn
            if qn.endswith("._compile") or qn.endswith(".compile"):
                c = qn.rsplit(".", 1)[0]
                if c not in ("CompilerMixin",):
                    comp = c
        tb = tb.tb_next
    return comp, site


def _tc_in_form(c):
    def op(x):
        return x.is_sometime() or x.is_sometime_after() or x.is_sometime_before() or x.is_at_most_once() or x.is_always()

    if c.is_and() or c.is_forall():
        return all(op(a) for a in c.args)
    return op(c)


def degenerate_trajectory_constraints(problem):
    """Stored trajectory constraints that `Problem.add_trajectory_constraint` itself would refuse (it stores the
    *simplified* constraint, e.g. `Sometime(true)` is stored as `true`)."""
    try:
        return [c for c in problem.trajectory_constraints if not _tc_in_form(c)]
    except Exception:
        return []


class _AsGlobalEnv:
    """Temporarily make `env` the library's default environment (harness-only device to keep observing a compiler whose
    first, honest run already failed because it built an object in the default environment)."""

    def __init__(self, env):
        self.env = env

    def __enter__(self):
        import unified_planning.environment as ue

        self.ue, self.old = ue, ue.GLOBAL_ENVIRONMENT
        ue.GLOBAL_ENVIRONMENT = self.env

    def __exit__(self, *a):
        self.ue.GLOBAL_ENVIRONMENT = self.old


def _mentions_environment(e):
    """An environment-consistency guard fired (assert / UPUsageError whose message or failing source line is about the
    `environment` of the objects involved)."""
    import traceback
    from unified_planning.exceptions import UPUsageError

    if not isinstance(e, (AssertionError, UPUsageError)):
        return False
    if "environment" in str(e):
        return True
    fr = traceback.extract_tb(e.__traceback__)
    return bool(fr) and isinstance(e, AssertionError) and "environment" in (fr[-1].line or "")


def _classify(compiler, problem, e):
    from unified_planning.exceptions import UPProblemDefinitionError

    comp, site = innermost_compiler(e)
    cname = comp or type(compiler).__name__
    row = documented(cname, e) or documented(type(compiler).__name__, e)
    if row is not None:
        return ("rejected", row, e)
    if isinstance(e, UPProblemDefinitionError) and "already defined" in str(e):
        adder = (site or "?").rsplit(".", 1)[-1]
        return ("name-clash", f"name-clash:{cname}:{adder}", e)
    if _mentions_environment(e):
        return ("env", f"ignores-problem-environment:{cname}", e)
    if isinstance(e, AssertionError) and site == "Problem.add_trajectory_constraint" and degenerate_trajectory_constraints(problem):
        # one root cause whatever the compiler: the *input* problem stores a constraint that cannot be re-added
        return ("raised", "stored-trajectory-constraint-not-readdable", e)
    return ("raised", f"compile-raises:{type(e).__name__}@{site}:{cname}", e)


def observe_compile(compiler, problem):
    """-> list of outcomes, each ("returned", result, None) | ("rejected", row, exc) | ("name-clash", mech, exc) |
    ("raised", mech, exc) | ("env", mech, exc).  An "env" outcome (the compiler built an object in the default environment
    instead of the problem's) is followed by the outcome of one retry with the problem's environment installed as default."""
    try:
        return [("returned", compiler.compile(problem), None)]
    except Exception as e:
        first = _classify(compiler, problem, e)
    if first[0] != "env":
        return [first]
    out = [first]
    try:
        with _AsGlobalEnv(problem.environment):
            out.append(("returned", compiler.compile(problem), None))
    except Exception as e:
        nxt = _classify(compiler, problem, e)
        out.append(nxt if nxt[0] != "env" else ("raised", nxt[1] + ":again", e))
    return out


# ---- well-formedness predicates (read-only accessors only) ----------------------------------------------------
def _walk(e, bound, ctx, out):
    """ctx: dict(fluents, objects, params (set or None), where). Appends (class, detail) problems to out."""
    stack = [(e, bound)]
    while stack:
        n, b = stack.pop()
        if n.is_fluent_exp():
            f = n.fluent()
            if not any(f is g or f == g for g in ctx["fluents"]):
                out.append(("undeclared-fluent", f"{f.name} in {ctx['where']}"))
            for t in [f.type] + [p.type for p in f.signature]:
                _type_declared(t, ctx, out, f"fluent {f.name}")
        elif n.is_object_exp():
            o = n.object()
            if not any(o is g or o == g for g in ctx["objects"]):
                out.append(("undeclared-object", f"{o.name} in {ctx['where']}"))
        elif n.is_parameter_exp():
            p = n.parameter()
            if ctx["params"] is None or not any(p is q or p == q for q in ctx["params"]):
                out.append(("foreign-parameter", f"{p.name} in {ctx['where']}"))
        elif n.is_variable_exp():
            v = n.variable()
            if not any(v is w or v == w for w in b):
                out.append(("free-variable", f"{v.name} in {ctx['where']}"))
            _type_declared(v.type, ctx, out, f"variable {v.name}")
        if n.is_exists() or n.is_forall():
            nb = tuple(b) + tuple(n.variables())
            for v in n.variables():
                _type_declared(v.type, ctx, out, f"variable {v.name}")
        else:
            nb = b
        for a in n.args:
            stack.append((a, nb))


def _type_declared(t, ctx, out, what):
    if t.is_user_type():
        x = t
        while x is not None:
            if not any(x is u or x == u for u in ctx["types"]):
                out.append(("undeclared-type", f"{x.name} used by {what}"))
                return
            x = x.father


def _effect_exprs(eff):
    return [("effect-fluent", eff.fluent), ("effect-value", eff.value), ("effect-condition", eff.condition)]


def wf_violations(pb, error_used_name=True):
    """-> (list of (class, detail), stats dict). Own traversal of the compiled problem."""
    from unified_planning.model import InstantaneousAction, DurativeAction

    out = []
    fl, acts, objs, types = list(pb.fluents), list(pb.actions), list(pb.all_objects), list(pb.user_types)
    natural = [t.name for t in list(getattr(pb, "processes", [])) + list(getattr(pb, "events", []))]
    names = {"fluent": [f.name for f in fl], "action": [a.name for a in acts] + natural, "object": [o.name for o in objs], "type": [t.name for t in types]}
    for g, ns in names.items():
        dup = sorted({n for n in ns if ns.count(n) > 1})
        if dup:
            out.append((f"duplicate-name:{g}", ",".join(dup)))
    if error_used_name:
        seen = {}
        for g, ns in names.items():
            for n in set(ns):
                if n in seen and seen[n] != g:
                    out.append(("duplicate-name:cross", f"{n} is both a {seen[n]} and a {g}"))
                seen.setdefault(n, g)
    ctx = dict(fluents=fl, objects=objs, types=types, params=None, where="")
    nexp = 0
    for f in fl:
        for t in [f.type] + [p.type for p in f.signature]:
            _type_declared(t, ctx, out, f"fluent {f.name}")
    for o in objs:
        _type_declared(o.type, ctx, out, f"object {o.name}")
    for a in acts:
        ctx["params"] = list(a.parameters)
        pn = [p.name for p in a.parameters]
        if len(set(pn)) != len(pn):
            out.append(("duplicate-name:parameter", f"{a.name}: {pn}"))
        for p in a.parameters:
            _type_declared(p.type, ctx, out, f"parameter {a.name}.{p.name}")
        if isinstance(a, InstantaneousAction):
            for c in a.preconditions:
                ctx["where"] = f"precondition of {a.name}"
                _walk(c, (), ctx, out)
                nexp += 1
            for eff in a.effects:
                for w, x in _effect_exprs(eff):
                    ctx["where"] = f"{w} of {a.name}"
                    _walk(x, tuple(eff.forall), ctx, out)
                    nexp += 1
        elif isinstance(a, DurativeAction):
            for iv, cl in a.conditions.items():
                for c in cl:
                    ctx["where"] = f"condition of {a.name}"
                    _walk(c, (), ctx, out)
                    nexp += 1
            for t, el in a.effects.items():
                for eff in el:
                    for w, x in _effect_exprs(eff):
                        ctx["where"] = f"{w} of {a.name}"
                        _walk(x, tuple(eff.forall), ctx, out)
                        nexp += 1
            for w, x in (("duration-lower", a.duration.lower), ("duration-upper", a.duration.upper)):
                ctx["where"] = f"{w} of {a.name}"
                _walk(x, (), ctx, out)
    for kind_, trs in (("process", getattr(pb, "processes", [])), ("event", getattr(pb, "events", []))):
        for tr in trs:
            ctx["params"] = list(tr.parameters)
            for p in tr.parameters:
                _type_declared(p.type, ctx, out, f"parameter {tr.name}.{p.name}")
            for c in tr.preconditions:
                ctx["where"] = f"precondition of {kind_} {tr.name}"
                _walk(c, (), ctx, out)
                nexp += 1
            for eff in tr.effects:
                for w, x in _effect_exprs(eff):
                    ctx["where"] = f"{w} of {kind_} {tr.name}"
                    _walk(x, tuple(eff.forall), ctx, out)
                    nexp += 1
    ctx["params"] = None
    groups = [("goal", pb.goals), ("state-invariant", pb.state_invariants), ("trajectory-constraint", pb.trajectory_constraints)]
    for w, exprs in groups:
        for x in exprs:
            ctx["where"] = w
            _walk(x, (), ctx, out)
            nexp += 1
    for k, v in pb.explicit_initial_values.items():
        ctx["where"] = "initial value"
        _walk(k, (), ctx, out)
        _walk(v, (), ctx, out)
        nexp += 1
    try:
        total_init = list(pb.initial_values.items())  # explicit values + defaults: every key must be about a declared fluent
    except Exception:
        total_init = []
    for k, v in total_init:
        ctx["where"] = "initial value (initial_values)"
        _walk(k, (), ctx, out)
        _walk(v, (), ctx, out)
    for f, v in pb.fluents_defaults.items():
        if not any(f is g or f == g for g in fl):
            out.append(("undeclared-fluent", f"{f.name} in fluents_defaults"))
        ctx["where"] = f"default of {f.name}"
        _walk(v, (), ctx, out)
    for iv, gl in pb.timed_goals.items():
        for x in gl:
            ctx["where"] = "timed goal"
            _walk(x, (), ctx, out)
    for t, el in pb.timed_effects.items():
        for eff in el:
            for w, x in _effect_exprs(eff):
                ctx["where"] = f"timed {w}"
                _walk(x, tuple(eff.forall), ctx, out)
    for qm in pb.quality_metrics:
        if qm.is_minimize_action_costs():
            for a, c in qm.costs.items():
                if not any(a is b for b in acts) and not any(a == b for b in acts):
                    out.append(("metric-foreign-action", f"cost defined for action {a.name} which is not an action of the compiled problem"))
                    continue
                if c is not None:
                    ctx["params"] = list(a.parameters)
                    ctx["where"] = f"cost of {a.name}"
                    _walk(c, (), ctx, out)
                    nexp += 1
            ctx["params"] = None
            if qm.default is not None:
                ctx["where"] = "default action cost"
                _walk(qm.default, (), ctx, out)
        elif qm.is_minimize_expression_on_final_state() or qm.is_maximize_expression_on_final_state():
            ctx["where"] = "final-value metric"
            _walk(qm.expression, (), ctx, out)
            nexp += 1
        elif qm.is_oversubscription():
            for g in qm.goals:
                ctx["where"] = "oversubscription goal"
                _walk(g, (), ctx, out)
                nexp += 1
    # dedupe, keep order
    seen, ded = set(), []
    for c, d in out:
        if (c, d) not in seen:
            seen.add((c, d))
            ded.append((c, d))
    return ded, {"expressions": nexp, "names": names}


# classes the property statement names ("every name is unique, every referenced action, fluent, object and type is
# declared"); the others (free variable, parameter of another action) are recorded as observations only.
STATEMENT_CLASSES = ("duplicate-name", "undeclared-fluent", "undeclared-object", "undeclared-type", "metric-foreign-action")


def in_statement(cls):
    return cls.startswith(STATEMENT_CLASSES)


# ---- back conversion -------------------------------------------------------------------------------------------
def _some_args(pb, action):
    """One tuple of actual parameters for `action` (first object of a compatible type / lower bound / True)."""
    em = pb.environment.expression_manager
    args = []
    for p in action.parameters:
        t = p.type
        if t.is_user_type():
            os_ = [o for o in pb.all_objects if _is_sub(o.type, t)]
            if not os_:
                return None
            args.append(em.ObjectExp(os_[0]))
        elif t.is_bool_type():
            args.append(em.TRUE())
        elif t.is_int_type():
            args.append(em.Int(t.lower_bound if t.lower_bound is not None else 0))
        elif t.is_real_type():
            args.append(em.Real(t.lower_bound if t.lower_bound is not None else 0))
        else:
            return None
    return tuple(args)


def _is_sub(t, anc):
    x = t
    while x is not None:
        if x == anc:
            return True
        x = x.father
    return False


def _applicable_first_steps(compiled):
    """Reference semantics (vk/ref/seqsem.py): the ground instances applicable in the initial state of `compiled`."""
    from vk.ref import seqsem
    from vk.ref.evalx import Unsupported

    out = []
    try:
        s0 = seqsem.initial_state(compiled)
        for a, args in seqsem.all_instances(compiled):
            if len(out) >= 6:
                break
            if seqsem.succ(compiled, s0, a, args).status == "ok":
                out.append((a, seqsem.param_exprs(compiled, a, args)))
    except (Unsupported, Exception):
        pass
    return out


def back_conversion_violations(result, original, compiled, probe="map-back"):
    """-> (list of (class, detail), stats). Checks plan_back_conversion availability and usability and that the
    conversion sends every compiled step to an instance of an action *of the original problem* (or to nothing).
    probe = "map-back": the empty plan and every single-step sequential plan (a per-action mapping needs no valid plan);
    "valid-sequential": the conversion simulates the plan, so only the empty plan and single steps that the reference
    semantics find applicable in the initial state are converted; "time-triggered": the conversion takes time-triggered
    plans of the compiled problem (start/end action pairs): only the empty time-triggered plan is converted."""
    from unified_planning.plans import SequentialPlan, ActionInstance, TimeTriggeredPlan
    from unified_planning.plans.plan import Plan

    out = []
    stats = {"steps": 0, "mapped_to_none": 0}
    env = compiled.environment
    pbc = result.plan_back_conversion
    mb = result.map_back_action_instance
    if pbc is None:
        if mb is None:
            out.append(("no-back-conversion-at-all", "both CompilerResult.plan_back_conversion and map_back_action_instance are None"))
            return out, stats
        out.append(("plan_back_conversion:None", "CompilerResult.plan_back_conversion is None although map_back_action_instance is set"))
        conv = lambda pl: pl.replace_action_instances(mb)  # noqa: E731 - documented equivalent, to keep judging usability
    elif not callable(pbc):
        out.append(("plan_back_conversion:not-callable", repr(pbc)))
        return out, stats
    else:
        conv = pbc
    orig_actions = list(original.actions)

    def steps_of(plan):
        if isinstance(plan, TimeTriggeredPlan):
            return [ai for _, ai, _ in plan.timed_actions]
        return list(getattr(plan, "actions", []))

    def judge_plan(pl, what):
        try:
            back = conv(pl)
        except Exception as e:
            out.append((f"back-conversion-raises:{type(e).__name__}", f"{what}: {e!r}"))
            return
        if not isinstance(back, Plan):
            out.append(("back-conversion-not-a-plan", f"{what}: {back!r}"))
            return
        for ai in steps_of(back):
            if not any(ai.action is a for a in orig_actions) and not any(ai.action == a for a in orig_actions):
                out.append(("back-conversion-foreign-action", f"{what}: mapped to action {ai.action.name} which is not an action of the original problem"))
            elif len(ai.actual_parameters) != len(ai.action.parameters):
                out.append(("back-conversion-arity", f"{what}: {ai}"))
        if what != "empty plan" and len(steps_of(back)) == 0:
            stats["mapped_to_none"] += 1

    if probe == "time-triggered":
        judge_plan(TimeTriggeredPlan([], env), "empty plan")
    else:
        judge_plan(SequentialPlan([], env), "empty plan")
        if probe == "valid-sequential":
            steps = _applicable_first_steps(compiled)
        else:
            steps = [(a, _some_args(compiled, a)) for a in compiled.actions]
        for a, args in steps:
            if args is None:
                continue
            stats["steps"] += 1
            judge_plan(SequentialPlan([ActionInstance(a, args)], env), f"single-step plan [{a.name}]")
    seen, ded = set(), []
    for c, d in out:
        if c not in seen:
            seen.add(c)
            ded.append((c, d))
    return ded, stats


# ---- C09 -------------------------------------------------------------------------------------------------------
def input_operators(pb):
    """Own walk: names of the operator kinds occurring in the conditions / effect values of the *input* problem."""
    ops = set()

    def walk(e):
        st = [e]
        while st:
            n = st.pop()
            ops.add(n.node_type.name)
            st.extend(n.args)

    try:
        for a in pb.actions:
            for c in getattr(a, "preconditions", []):
                walk(c)
            effs = a.effects if isinstance(a.effects, list) else [e for el in a.effects.values() for e in el]
            for eff in effs:
                walk(eff.condition)
                walk(eff.value)
        for g in list(pb.goals) + list(pb.state_invariants) + list(pb.trajectory_constraints):
            walk(g)
        for qm in pb.quality_metrics:
            if qm.is_oversubscription():
                for g in qm.goals:
                    walk(g)
    except Exception:
        pass
    return ops


UTFR_BOOL_ASSIGN_FEATURES = {
    "CONDITIONAL_EFFECTS",
    "NEGATIVE_CONDITIONS",
    "DISJUNCTIVE_CONDITIONS",
    "UNIVERSAL_CONDITIONS",
    "EXISTENTIAL_CONDITIONS",
    "EQUALITIES",
    "INTERPRETED_FUNCTIONS_IN_CONDITIONS",
}


# features whose presence depends on what *simplification* leaves behind (linear vs general arithmetic, which fluents are
# static, whether a numeric fluent is only read by a cost/duration, whether a cost/duration is a constant of int/real type):
# no resulting_problem_kind models them, whatever the compiler -> one mechanism string per feature, not per compiler
SHIFT_FEATURES = {
    "SIMPLE_NUMERIC_PLANNING",
    "GENERAL_NUMERIC_PLANNING",
    "STATIC_FLUENTS_IN_BOOLEAN_ASSIGNMENTS",
    "STATIC_FLUENTS_IN_NUMERIC_ASSIGNMENTS",
    "STATIC_FLUENTS_IN_OBJECT_ASSIGNMENTS",
    "INT_FLUENTS",
    "REAL_FLUENTS",
    "INT_NUMBERS_IN_ACTIONS_COST",
    "REAL_NUMBERS_IN_ACTIONS_COST",
    "INT_NUMBERS_IN_OVERSUBSCRIPTION",
    "REAL_NUMBERS_IN_OVERSUBSCRIPTION",
    "INT_TYPE_DURATIONS",
    "REAL_TYPE_DURATIONS",
}


def feature_mechanism(label, f, in_kind, pb_in):
    """Mechanism string for 'compiled problem has feature f, the declared kind has not' — one string per root cause:
    several (compiler, feature) pairs share a cause, which is recognised from the *input* (names only; the verdict itself
    never depends on this classification)."""
    feats = set(in_kind.features)
    if f in SHIFT_FEATURES or f.startswith("STATIC_FLUENTS_IN_") or f.startswith("FLUENTS_IN_"):
        return f"simplification-feature-shift:{f}"
    if label == "utfr" and f in UTFR_BOOL_ASSIGN_FEATURES:
        # UsertypeFluentsRemover turns every Boolean assignment with a non-constant value into two conditional effects.
        # Features the has_object_fluents branch of resulting_problem_kind *does* declare keep their own string when that
        # branch was taken (so that a regression of the branch is not hidden behind this group).
        if "OBJECT_FLUENTS" not in feats or f in ("DISJUNCTIVE_CONDITIONS", "UNIVERSAL_CONDITIONS", "INTERPRETED_FUNCTIONS_IN_CONDITIONS"):
            return "utfr-boolean-assignment-to-conditional-effects"
    if f == "NEGATIVE_CONDITIONS" and pb_in is not None and input_operators(pb_in) & {"IMPLIES", "IFF"}:
        return "implies-iff-rewritten-to-not"
    return f"undeclared-feature:{f}:{label}"


def kind_violations(comp_cls, ck, in_kind, compiled, label=None, pb_in=None):
    """-> (list of (mechanism, detail), declared kind or None, compiled kind or None)"""
    out = []
    label = label or comp_cls.__name__
    try:
        declared = comp_cls.resulting_problem_kind(in_kind, ck)
    except Exception as e:
        return [(f"declared-kind-raises:{type(e).__name__}:{label}", f"{comp_cls.__name__}.resulting_problem_kind raised {e!r} on a supported input kind")], None, None
    try:
        ckind = compiled.kind
    except Exception as e:
        return [(f"compiled-kind-raises:{type(e).__name__}:{label}", f"kind of the compiled problem raised {e!r}")], declared, None
    if not (ckind <= declared):
        extra = sorted(set(ckind.features) - set(declared.features))
        for f in extra or ["<version-dependent>"]:
            out.append((feature_mechanism(label, f, in_kind, pb_in), f"compiled problem has {f}, declared resulting kind does not (input kind had it: {f in in_kind.features})"))
    return out, declared, ckind

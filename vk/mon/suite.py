"""Runs the repository's own test-suite with universal monitors installed and merges the per-worker monitor logs."""
import glob
import json
import os
import subprocess
import sys
import tempfile

ROOT = os.path.dirname(os.path.dirname(os.path.dirname(os.path.abspath(__file__))))


def run_suite(which, workers=8, select=None, timeout=3000):
    """which: iterable of monitor names. Returns dict(counts, violations, returncode, tail)."""
    repo = os.environ.get("VK_REPO", "/repo")
    outdir = tempfile.mkdtemp(prefix="vk-suite-", dir=os.path.join(ROOT, "out"))
    env = dict(os.environ)
    env["VK_MON"] = ",".join(which)
    env["VK_MON_LOG"] = os.path.join(outdir, "mon")
    env["PYTHONPATH"] = os.pathsep.join([repo, ROOT, os.path.join(ROOT, ".deps")])
    env["PYTHONHASHSEED"] = "0"
    cmd = [sys.executable, "-m", "pytest", "-q", "-p", "no:cacheprovider", "-p", "vk.mon.pytest_plugin", "--timeout=900", "-n", str(workers)]
    cmd += select or [os.path.join(repo, "unified_planning", "test")]
    try:
        p = subprocess.run(cmd, cwd=repo, env=env, stdout=subprocess.PIPE, stderr=subprocess.STDOUT, timeout=timeout)
        rc, tail = p.returncode, p.stdout.decode(errors="replace")[-1500:]
    except subprocess.TimeoutExpired:
        rc, tail = -9, "timeout"
    counts, violations = {}, []
    for f in glob.glob(os.path.join(outdir, "mon.*.json")):
        with open(f) as fh:
            d = json.load(fh)
        for k, v in d["counts"].items():
            counts[k] = counts.get(k, 0) + v
        violations.extend(d["violations"])
    import shutil

    shutil.rmtree(outdir, ignore_errors=True)
    return {"counts": counts, "violations": violations, "returncode": rc, "tail": tail}


def feed(res, prop, out, needed_counter):
    """Merge a suite run into a vk.core.Result for property `prop`."""
    res.count("suite:runs")
    for k, v in out["counts"].items():
        res.count("suite:" + k, v)
    n = out["counts"].get(needed_counter, 0)
    res.case(n)
    res.mon(n)
    if out["returncode"] == -9:
        res.harness_errors.append({"where": "suite", "exc": "test-suite under monitors timed out", "tb": ""})
    for v in out["violations"]:
        if v["property"] == prop:
            res.violation("suite:" + v["mechanism"], v["summary"] + " [in " + v.get("test", "") + "]", {"suite": True, "test": v.get("test", ""), "tier": "thorough", "case_key": None})


def thresholds(counters, needed_counter, minimum=1):
    """Reasons (for a check's thresholds()) why a run that included the suite is inconclusive: the universal monitor judged
    fewer than `minimum` calls. Runs without the suite (quick tier, replay of a generated case) are not concerned."""
    if not counters.get("suite:runs"):
        return []
    n = counters.get("suite:" + needed_counter, 0)
    if n < minimum:
        return [f"the repository's test-suite ran under the universal monitor but only {n} < {minimum} calls were judged ({needed_counter})"]
    return []


def replay_suite(res, prop, which, needed_counter, witness):
    test = (witness.get("test") or "").split(" (")[0]
    repo = os.environ.get("VK_REPO", "/repo")
    sel = [os.path.join(repo, test)] if test else None
    feed(res, prop, run_suite(which, workers=2, select=sel), needed_counter)


if __name__ == "__main__":
    out = run_suite(sys.argv[1].split(","), workers=int(sys.argv[2]) if len(sys.argv) > 2 else 8, select=sys.argv[3:] or None)
    print(json.dumps({k: out[k] for k in ("counts", "returncode")}, indent=1))
    for v in out["violations"][:20]:
        print(v["property"], v["mechanism"], v["summary"][:300], "|", v["test"])
    print(out["tail"][-600:])

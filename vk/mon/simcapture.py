"""Pass-through boundary monitor on UPSequentialSimulator (owner: check C35).

`with Capture() as cap:` installs class-level wrappers around `UPSequentialSimulator.get_initial_state` and `.apply` that record
(method, simulator, arguments, returned state | raised exception) in `cap.events` and never change arguments, results or
exceptions.  Used to observe the states a SimulatedExecutionEnvironment keeps privately (it has no public state accessor):
the states are taken at the boundary of the simulator the environment itself calls."""


class Capture:
    def __init__(self):
        self.events = []
        self._saved = {}

    def __enter__(self):
        from unified_planning.engines.sequential_simulator import UPSequentialSimulator as S

        cap = self
        for name in ("get_initial_state", "apply"):
            self._saved[name] = S.__dict__.get(name, None)
            orig = getattr(S, name)

            def make(name, orig):
                def wrapper(sim, *a, **kw):
                    try:
                        r = orig(sim, *a, **kw)
                    except BaseException as e:
                        cap.events.append({"op": name, "sim": sim, "args": a, "raised": e})
                        raise
                    cap.events.append({"op": name, "sim": sim, "args": a, "result": r})
                    return r

                wrapper.__name__ = name
                return wrapper

            setattr(S, name, make(name, orig))
        return self

    def __exit__(self, *exc):
        from unified_planning.engines.sequential_simulator import UPSequentialSimulator as S

        for name, saved in self._saved.items():
            if saved is None:
                try:
                    delattr(S, name)
                except AttributeError:
                    pass
            else:
                setattr(S, name, saved)
        return False

    def take(self, op):
        """events of kind op recorded so far (and forget them)."""
        out = [e for e in self.events if e["op"] == op]
        self.events = [e for e in self.events if e["op"] != op]
        return out

"""M-factory (C32): pass-through boundary monitor on `Factory._get_engine` + harness fake engines.

* `install(callback)` wraps `Factory._get_engine` **at class level** (looked up at call time by every public operation
  mode method), records the bound arguments and the return value / exception of every call and hands them to
  `callback(factory, args_dict, result, exc)`.  It never changes arguments, results or exceptions.
* `make_fake(...)` builds harness engine classes with a randomised configuration (modes, supported features,
  guarantees, plan kinds, compilation kinds with their kind transformers).  They are published as attributes of this
  module so that the *public* `Factory.add_engine(name, module_name, class_name)` can register them.
* `qualifies(cls, request)` is the monitor's own reading of "engine class `cls` honours every requirement of `request`".
  For fake engines it is computed from the harness configuration, for library engines from the class's own published
  answers (`supports`, `satisfies`, `ensures`, `supports_plan`, `supports_compilation`) — the property is defined through
  those notions.  "Supports the kind" is always judged on a fresh copy of the kind *as requested* (declared version 1, 2,
  latest or None), through the library's `<=` for harness engines: a request in an older version means its upgrade.
"""
import inspect
import sys

from vk import env as _env  # noqa: F401

import unified_planning as up
from unified_planning.engines.engine import Engine, OperationMode
from unified_planning.engines.factory import Factory
from unified_planning.engines import mixins
from unified_planning.engines.mixins.compiler import CompilerMixin
from unified_planning.engines.mixins.action_selector import ActionSelectorMixin
from unified_planning.model import ProblemKind

_THIS = sys.modules[__name__]
_ORIG = None
_SIG = None


def install(callback):
    """Wrap Factory._get_engine at class level. Idempotent per process; returns an `uninstall` callable."""
    global _ORIG, _SIG
    if _ORIG is not None:
        raise RuntimeError("M-factory already installed")
    _ORIG = Factory._get_engine
    _SIG = inspect.signature(_ORIG)
    orig = _ORIG

    def _get_engine(self, *a, **kw):
        try:
            bound = _SIG.bind(self, *a, **kw)
            bound.apply_defaults()
            args = dict(bound.arguments)
            args.pop("self", None)
        except TypeError:
            args = {"unbindable": True}
        # snapshot of what the selection may depend on, taken *before* the call
        args["_pref"] = list(self.preference_list)
        try:
            res = orig(self, *a, **kw)
        except BaseException as e:  # noqa: B902 - passed through unchanged
            callback(self, args, None, e)
            raise
        callback(self, args, res, None)
        return res

    _get_engine.__wrapped__ = orig
    Factory._get_engine = _get_engine
    return uninstall


def uninstall():
    global _ORIG
    if _ORIG is not None:
        Factory._get_engine = _ORIG
        _ORIG = None


# ---- fake engines ------------------------------------------------------------------------------------
MODE_MIXIN = {
    "oneshot_planner": mixins.OneshotPlannerMixin,
    "anytime_planner": mixins.AnytimePlannerMixin,
    "plan_validator": mixins.PlanValidatorMixin,
    "portfolio_selector": mixins.PortfolioSelectorMixin,
    "compiler": mixins.CompilerMixin,
    "sequential_simulator": mixins.SequentialSimulatorMixin,
    "replanner": mixins.ReplannerMixin,
    "plan_repairer": mixins.PlanRepairerMixin,
    "action_selector": ActionSelectorMixin,
}
# modes whose mixins define clashing `satisfies` / `supports_plan`: any combination is fine for a fake because the
# fake defines every requirement method itself, from one configuration.


def make_fake(clsname, cfg):
    """cfg: {"modes": [mode value...], "features": [feature...], "og": [OptimalityGuarantee name...],
             "ag": [AnytimeGuarantee name...], "plans": [PlanKind name...],
             "ck": {CompilationKind name: [[features added], [features removed]]}}"""
    feats = frozenset(cfg["features"])
    og = frozenset(cfg.get("og", ()))
    ag = frozenset(cfg.get("ag", ()))
    plans = frozenset(cfg.get("plans", ()))
    cks = {k: (frozenset(v[0]), frozenset(v[1])) for k, v in cfg.get("ck", {}).items()}
    bases = (Engine,) + tuple(MODE_MIXIN[m] for m in cfg["modes"])
    kind = ProblemKind(feats, version=up.model.problem_kind_versioning.LATEST_PROBLEM_KIND_VERSION)

    def __init__(self, *args, **kwargs):
        Engine.__init__(self)
        self.vk_init_kwargs = dict(kwargs)
        self.optimality_metric_required = False
        self._default = None

    ns = {
        "__init__": __init__,
        "name": property(lambda self: clsname),
        "supported_kind": staticmethod(lambda: kind.clone()),
        "supports": staticmethod(lambda problem_kind: problem_kind <= kind.clone()),
        "satisfies": staticmethod(lambda optimality_guarantee: optimality_guarantee.name in og),
        "ensures": staticmethod(lambda anytime_guarantee: anytime_guarantee.name in ag),
        "supports_plan": staticmethod(lambda plan_kind: plan_kind.name in plans),
        "supports_compilation": staticmethod(lambda compilation_kind: compilation_kind.name in cks),
        "resulting_problem_kind": staticmethod(lambda problem_kind, compilation_kind=None: _fake_rpk(problem_kind, compilation_kind, cks)),
        "get_credits": staticmethod(lambda **kwargs: None),
        "_vk_cfg": {"modes": frozenset(cfg["modes"]), "features": feats, "og": og, "ag": ag, "plans": plans, "ck": cks},
        "__module__": __name__,
        "__qualname__": clsname,
    }
    cls = type(Engine)(clsname, bases, ns)  # EngineMeta
    cls.__abstractmethods__ = frozenset()  # the harness never runs the fake engines, only selects them
    setattr(_THIS, clsname, cls)
    return cls


def _latest():
    return up.model.problem_kind_versioning.LATEST_PROBLEM_KIND_VERSION


def fresh(kind):
    """A fresh copy of a requested kind (same raw features, same declared version or None): the library's `<=` mutates the
    raw feature sets of its operands, so every judgement works on its own copy of the ORIGINAL kind."""
    return kind.clone()


def at_latest(kind):
    """The kind a harness compiler works on: the requested kind brought to the latest version by the library's own
    upgrade (union with the empty kind of the latest version)."""
    return fresh(kind).union(ProblemKind(version=_latest()))


def _fake_rpk(problem_kind, compilation_kind, cks):
    # harness compilers declare their output at the latest version (their add-sets are drawn from the latest universe)
    add, rem = cks.get(compilation_kind.name if compilation_kind is not None else None, (frozenset(), frozenset()))
    return ProblemKind((set(at_latest(problem_kind).features) - rem) | add, version=_latest())


# ---- the monitor's own reading of "qualifies" -----------------------------------------------------------
REQ_OF_MODE = {
    "oneshot_planner": ("og",),
    "replanner": ("og",),
    "portfolio_selector": ("og",),
    "plan_validator": ("pk",),
    "compiler": ("ck",),
    "anytime_planner": ("ag",),
    "plan_repairer": ("pk", "og"),
    "sequential_simulator": (),
    "action_selector": (),
}


def qualifies(cls, mode, kind, og=None, ck=None, pk=None, ag=None):
    """-> (bool, reason). mode: OperationMode value string; kind: ProblemKind; requirements: enum members or None."""
    cfg = getattr(cls, "_vk_cfg", None)
    if cfg is not None and "_vk_cfg" in cls.__dict__:
        if mode not in cfg["modes"]:
            return False, "mode"
        reqs = REQ_OF_MODE[mode]
        if "og" in reqs and og is not None and og.name not in cfg["og"]:
            return False, "optimality_guarantee"
        if "pk" in reqs and pk is not None and pk.name not in cfg["plans"]:
            return False, "plan_kind"
        if "ck" in reqs and ck is not None and ck.name not in cfg["ck"]:
            return False, "compilation_kind"
        if "ag" in reqs and ag is not None and ag.name not in cfg["ag"]:
            return False, "anytime_guarantee"
        # "supports" is the library's order on kinds (it upgrades an older / un-versioned request before comparing)
        if not (fresh(kind) <= ProblemKind(cfg["features"], version=_latest())):
            return False, "problem_kind"
        return True, "ok"
    if not getattr(cls, "is_" + mode)():
        return False, "mode"
    reqs = REQ_OF_MODE[mode]
    if "og" in reqs and og is not None and not cls.satisfies(og):
        return False, "optimality_guarantee"
    if "pk" in reqs and pk is not None and not cls.supports_plan(pk):
        return False, "plan_kind"
    if "ck" in reqs and ck is not None and not cls.supports_compilation(ck):
        return False, "compilation_kind"
    if "ag" in reqs and ag is not None and not cls.ensures(ag):
        return False, "anytime_guarantee"
    if not cls.supports(fresh(kind)):
        return False, "problem_kind"
    return True, "ok"


def resulting_kind(cls, kind, ck):
    """Declared result kind of compiler class `cls` (own model for fakes, the class's declaration otherwise)."""
    cfg = cls.__dict__.get("_vk_cfg")
    if cfg is not None:
        add, rem = cfg["ck"].get(ck.name, (frozenset(), frozenset()))
        return ProblemKind((set(at_latest(kind).features) - rem) | add, version=_latest())
    return cls.resulting_problem_kind(fresh(kind), ck)


def scan(factory_engines, pref, mode, kind, og=None, ck=None, pk=None, ag=None):
    """Own scan of a preference list. -> (names that qualify in order, [(name, reason)] right-mode engines rejected)."""
    ok, rejected = [], []
    for name in pref:
        cls = factory_engines[name]
        q, why = qualifies(cls, mode, kind, og, ck, pk, ag)
        if q:
            ok.append(name)
        elif why != "mode":
            rejected.append((name, why))
    return ok, rejected


def innermost_site(exc):
    """'<qualname of the innermost library frame>' of an exception's traceback (for mechanism strings)."""
    tb = exc.__traceback__
    site = None
    while tb is not None:
        code = tb.tb_frame.f_code
        fn = code.co_filename
        if "unified_planning" in fn:
            site = getattr(code, "co_qualname", code.co_name)
        tb = tb.tb_next
    return site or "?"

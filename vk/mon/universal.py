"""Universal monitors: class-level, pass-through wrappers that can stay installed during ANY workload (other checks, the
repository's own test-suite). Each judges the calls it sees with an oracle and appends violations to a JSONL log.

  M-node      ExpressionManager.create_node   shadow hash-cons map, outcome stability          (C16)
  M-subst     Substituter.substitute          reference substitution, identity comparison      (C13)
  M-quiescent DagWalker.walk                  empty work stack after every top-level walk      (C14)
  M-simplify  Simplifier.simplify             evaluation under sampled interpretations, FV, idempotence   (C11)
  M-sim       UPSequentialSimulator.apply / is_applicable   reference successor semantics      (C01, C02)
  M-state     UPState (vk/mon/statemon.py)    finite-map shadow model                          (C36)

Used by vk/mon/pytest_plugin.py (repo test-suite under monitors) — thorough tier of C01, C02, C11, C13, C14, C16.
Every monitor counts its evaluations; zero evaluations => the owning check is inconclusive."""
import json
import os
import random
import traceback
from fractions import Fraction


class Log:
    def __init__(self, path=None):
        self.path = path
        self.counts = {}
        self.violations = []

    def count(self, k, n=1):
        self.counts[k] = self.counts.get(k, 0) + n

    def violation(self, prop, mechanism, summary, **extra):
        self.count("violations:" + prop)
        if sum(1 for v in self.violations if v["mechanism"] == mechanism) >= 5:
            return
        rec = {"property": prop, "mechanism": mechanism, "summary": summary[:1500], "test": os.environ.get("PYTEST_CURRENT_TEST", ""), **extra}
        self.violations.append(rec)

    def dump(self):
        if self.path:
            with open(self.path, "w") as f:
                json.dump({"counts": self.counts, "violations": self.violations}, f, default=str)


class Guard:
    """re-entrancy guard: monitors never judge calls made by their own oracles"""

    def __init__(self):
        self.busy = 0

    def __enter__(self):
        self.busy += 1
        return self

    def __exit__(self, *a):
        self.busy -= 1


GUARD = Guard()


def install_all(log, which=("node", "subst", "quiescent", "simplify", "sim")):
    un = []
    if "node" in which:
        un.append(install_node(log))
    if "subst" in which:
        un.append(install_subst(log))
    if "quiescent" in which:
        un.append(install_quiescent(log))
    if "simplify" in which:
        un.append(install_simplify(log))
    if "sim" in which:
        un.append(install_sim(log))
    if "state" in which:
        from vk.mon import statemon

        un.append(statemon.install(log))

    def uninstall():
        for u in reversed(un):
            u()

    return uninstall


# ---------------------------------------------------------------------------------------------------------------- M-node
def install_node(log):
    from unified_planning.model.expression import ExpressionManager
    from vk.checks.c16 import payload_key, read_node

    orig = ExpressionManager.create_node
    shadow = {}  # (id(em), key) -> node
    outcome = {}
    ids = {}

    def create_node(em, node_type, args, payload=None):
        try:
            n = orig(em, node_type, args, payload)
            ex = None
        except BaseException as e:
            n, ex = None, e
        if not GUARD.busy:
            try:
                key = (id(em), node_type, tuple(id(a) for a in args), payload_key(payload) if payload is not None else None)
                hash(key)
            except TypeError:
                key = None
            if key is not None:
                log.count("M-node:events")
                out = "node" if n is not None else type(ex).__name__
                prev = outcome.get(key)
                if prev is not None and prev != out:
                    log.violation("C16", "construction-outcome-changed", f"create_node({node_type.name}) gave {prev} before and {out} now")
                outcome[key] = out
                if n is not None:
                    old = shadow.get(key)
                    if old is not None:
                        log.count("M-node:repeats")
                        if old is not n:
                            log.violation("C16", "same-key-different-node", f"constructing {n} twice gave two different nodes")
                    else:
                        s = ids.setdefault(id(em), set())
                        if n.node_id in s:
                            log.violation("C16", "id-reused", f"new node {n} received the already used id {n.node_id}")
                        s.add(n.node_id)
                        shadow[key] = n
                        rn = read_node(n)
                        if rn[0] != node_type or rn[1] != key[2]:
                            log.violation("C16", "node-content-differs-from-request", f"create_node({node_type.name}) returned {n}")
        if ex is not None:
            raise ex
        return n

    ExpressionManager.create_node = create_node
    return lambda: setattr(ExpressionManager, "create_node", orig)


# --------------------------------------------------------------------------------------------------------------- M-subst
def install_subst(log):
    from unified_planning.model.walkers.substituter import Substituter
    from unified_planning.exceptions import UPException
    from vk.ref import subst as rsub

    orig = Substituter.substitute

    def substitute(self, expression, substitutions={}):
        if GUARD.busy or not substitutions:
            return orig(self, expression, substitutions)
        exp = None
        try:
            with GUARD:
                m = {}
                ok = True
                for k, v in substitutions.items():
                    nk, nv = self.manager.auto_promote(k, v)
                    if not nk.type.is_compatible(nv.type):
                        ok = False
                    m[nk] = nv
                if ok:
                    exp, hits = rsub.substitute(expression, m)
        except (UPException, ZeroDivisionError, NotImplementedError, AssertionError):
            exp = None
        got = orig(self, expression, substitutions)
        if exp is not None:
            log.count("M-subst:judged")
            if got is not exp:
                log.violation("C13", "result-differs", f"substitute({expression}, {substitutions}) = {got}, expected {exp}")
        return got

    Substituter.substitute = substitute
    return lambda: setattr(Substituter, "substitute", orig)


# ----------------------------------------------------------------------------------------------------------- M-quiescent
def install_quiescent(log):
    from unified_planning.model.walkers.dag import DagWalker

    orig = DagWalker.walk
    depth = {}

    def walk(w, expression, **kwargs):
        k = id(w)
        depth[k] = depth.get(k, 0) + 1
        raised = False
        try:
            return orig(w, expression, **kwargs)
        except BaseException:
            raised = True
            raise
        finally:
            depth[k] -= 1
            if depth[k] == 0:
                del depth[k]
                log.count("M-quiescent:walks")
                if raised:
                    log.count("M-quiescent:raising_walks")
                if w.stack:
                    log.violation("C14", f"walker-not-quiescent:{type(w).__name__}:{'after-raise' if raised else 'after-return'}", f"{type(w).__name__} kept {len(w.stack)} pending stack entries after a top-level walk")

    DagWalker.walk = walk
    return lambda: setattr(DagWalker, "walk", orig)


# ------------------------------------------------------------------------------------------------------------ M-simplify
class _NoProblem:
    """Stand-in 'problem' for expressions that carry no quantifiers / user-typed free leaves."""

    all_objects = ()


def _leaves(e):
    fl, ps, vs, quant, timing = {}, {}, {}, False, False
    st = [e]
    while st:
        x = st.pop()
        if x.is_fluent_exp():
            fl[x] = x
        elif x.is_parameter_exp():
            ps[x.parameter().name] = x.parameter().type
        elif x.is_variable_exp():
            vs[x.variable().name] = x.variable().type
        elif x.is_exists() or x.is_forall():
            quant = True
        elif x.is_timing_exp() or x.is_present_exp() or x.is_dot() or x.node_type.name in ("ALWAYS", "SOMETIME", "SOMETIME_BEFORE", "SOMETIME_AFTER", "AT_MOST_ONCE"):
            timing = True
        st.extend(x.args)
    return fl, ps, vs, quant, timing


def _sample_type(rng, t):
    if t.is_bool_type():
        return rng.choice([False, True])
    if t.is_int_type() or t.is_real_type():
        lb, ub = t.lower_bound, t.upper_bound
        cands = [0, 1, -1, 2, 5, -7, 2**53 + 1]
        if t.is_real_type():
            cands += [Fraction(1, 3), Fraction(-5, 2)]
        cands += [x for x in (lb, ub) if x is not None]
        cands = [c for c in cands if (lb is None or c >= lb) and (ub is None or c <= ub)]
        return rng.choice(cands) if cands else (lb if lb is not None else 0)
    return None


def install_simplify(log, budget=8):
    from unified_planning.model.walkers.simplifier import Simplifier
    from vk.ref.evalx import Interp, ev, UNDEF, free_vars, Unsupported

    orig = Simplifier.simplify
    seen = set()
    rng = random.Random(12345)

    def simplify(self, expression):
        res = orig(self, expression)
        if GUARD.busy or type(self) is not Simplifier:
            return res
        key = (id(self), expression)
        if key in seen:
            return res
        seen.add(key)
        try:
            with GUARD:
                log.count("M-simplify:calls")
                if not free_vars(res) <= free_vars(expression):
                    log.violation("C11", "new-free-variable", f"simplify({expression}) = {res} introduces free variables")
                again = orig(self, res)
                if again is not res:
                    log.violation("C11", "not-idempotent", f"simplify({expression}) = {res}, simplifying again gives {again}")
                fl, ps, vs, quant, timing = _leaves(expression)
                if quant or timing or self.problem is not None:
                    return res
                # ground fluent leaves only (arguments constants), numeric/bool params and no user-typed leaves
                keys = {}
                for f in fl:
                    if any(not (a.is_constant() or a.is_object_exp()) for a in f.args):
                        return res
                    t = f.fluent().type
                    if t.is_user_type():
                        return res
                    from vk.ref.evalx import const_value

                    keys[(f.fluent().name, tuple(const_value(a) for a in f.args))] = t
                if any(t.is_user_type() for t in list(ps.values()) + list(vs.values())):
                    return res
                judged = 0
                for _ in range(budget):
                    I = Interp(_NoProblem, {k: _sample_type(rng, t) for k, t in keys.items()}, {n: _sample_type(rng, t) for n, t in ps.items()}, {n: _sample_type(rng, t) for n, t in vs.items()})
                    try:
                        a = ev(expression, I, "strict")
                        if a is UNDEF:
                            continue
                        b = ev(res, I, "strict")
                    except (Unsupported, ZeroDivisionError, TypeError, AttributeError):
                        break
                    judged += 1
                    same = (a is b) if isinstance(a, bool) or isinstance(b, bool) else (a == b)
                    if isinstance(a, bool) and isinstance(b, bool):
                        same = a == b
                    if b is UNDEF or not same:
                        log.violation("C11", "value-changed", f"simplify({expression}) = {res}: {a} became {b} under {I.fluents} {I.params}")
                        break
                if judged:
                    log.count("M-simplify:judged")
        except Exception:
            log.count("M-simplify:monitor_errors")
        return res

    Simplifier.simplify = simplify
    return lambda: setattr(Simplifier, "simplify", orig)


# ------------------------------------------------------------------------------------------------------------------ M-sim
def install_sim(log, max_ground=300):
    from unified_planning.engines.sequential_simulator import UPSequentialSimulator
    from unified_planning.model import UPState
    from vk.ref import seqsem
    from vk.ref.evalx import const_value, Unsupported

    orig_apply = UPSequentialSimulator._apply
    orig_app = UPSequentialSimulator._is_applicable
    info = {}

    def prep(sim):
        k = id(sim)
        if k not in info:
            pb = sim._problem
            ok = None
            try:
                if type(pb).__name__ == "Problem" and not pb.kind.has_simulated_effects():
                    gfl = seqsem.ground_fluents(pb)
                    if len(gfl) <= max_ground:
                        ok = gfl
            except Exception:
                ok = None
            info[k] = ok
        return info[k]

    def judge(sim, state, action, params, got_state, got_app):
        gfl = prep(sim)
        if gfl is None or not isinstance(state, UPState):
            return
        pb = sim._problem
        try:
            args = tuple(const_value(p) for p in params)
            rs = seqsem.read_state(pb, state, gfl)
            r = seqsem.succ(pb, rs, action, args)
        except (Unsupported, Exception):
            log.count("M-sim:unsupported")
            return
        log.count("M-sim:judged")
        if r.status == seqsem.DONTCARE:
            log.count("M-sim:dontcare")
            return
        if got_app is not None:
            if bool(got_app) != (r.status == seqsem.OKAY):
                log.violation("C01", "is_applicable-mismatch:" + str(r.reason), f"{action.name}{args} in {seqsem.show_state(rs)}: is_applicable={got_app}, reference {r.status}/{r.reason}")
            return
        if (got_state is not None) != (r.status == seqsem.OKAY):
            log.violation("C01", "apply-mismatch:" + str(r.reason), f"{action.name}{args} in {seqsem.show_state(rs)}: apply returned {'a state' if got_state is not None else None}, reference {r.status}/{r.reason}")
        elif got_state is not None:
            ns = seqsem.read_state(pb, got_state, gfl)
            if ns != r.state:
                log.violation("C01", "successor-mismatch", f"{action.name}{args} in {seqsem.show_state(rs)}: successor {seqsem.show_state(ns)}, reference {seqsem.show_state(r.state)}")

    def _apply(self, state, action, parameters):
        res = orig_apply(self, state, action, parameters)
        if not GUARD.busy:
            with GUARD:
                try:
                    judge(self, state, action, parameters, res, None)
                except Exception:
                    log.count("M-sim:monitor_errors")
        return res

    def _is_applicable(self, state, action, parameters):
        res = orig_app(self, state, action, parameters)
        if not GUARD.busy:
            with GUARD:
                try:
                    judge(self, state, action, parameters, None, res)
                except Exception:
                    log.count("M-sim:monitor_errors")
        return res

    UPSequentialSimulator._apply = _apply
    UPSequentialSimulator._is_applicable = _is_applicable

    def un():
        UPSequentialSimulator._apply = orig_apply
        UPSequentialSimulator._is_applicable = orig_app

    return un

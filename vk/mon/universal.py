"""Universal monitors: class-level, pass-through wrappers that can stay installed during ANY workload (other checks, the
repository's own test-suite). Each judges the calls it sees with an oracle and appends violations to a JSONL log.

  M-node      ExpressionManager.create_node   shadow hash-cons map, outcome stability          (C16)
  M-subst     Substituter.substitute          reference substitution, identity comparison      (C13)
  M-quiescent DagWalker.walk                  empty work stack after every top-level walk      (C14)
  M-simplify  Simplifier.simplify             evaluation under sampled interpretations, FV, idempotence   (C11)
  M-sim       UPSequentialSimulator.apply / is_applicable   reference successor semantics      (C01, C02)
  M-state     UPState (vk/mon/statemon.py)    finite-map shadow model                          (C36)
  M-kind      <problem class>.kind            from-scratch syntactic feature extractor vk/ref/kindx.py   (C10)
  M-clone     <problem / action class>.clone  ==, hash, kind; independence probe on a second clone       (C22)
  M-kindorder ProblemKind ==, <=, hash, union, intersection   set-of-features model vk/ref/lattice.py    (C33)
  M-dnf       Nnf.get_nnf_expression / Dnf.get_dnf_expression   shape + truth value under random first-order models  (C12)
  M-types     TypeChecker.get_type            inferred interval vs exact evaluation; mirrored Equals      (C15)
  M-names     PDDLWriter / ANMLWriter output  lexical oracle of C38 on the observed writer's own name tables and text  (C38)

Used by vk/mon/pytest_plugin.py (repo test-suite under monitors) — thorough tier of C01, C02, C11, C13, C14, C16.
Every monitor counts its evaluations; zero evaluations => the owning check is inconclusive."""
import json
import os
import random
import traceback
from fractions import Fraction


class Log:
    def __init__(self, path=None):
        self.path = path
        self.counts = {}
        self.violations = []

    def count(self, k, n=1):
        self.counts[k] = self.counts.get(k, 0) + n

    def violation(self, prop, mechanism, summary, **extra):
        self.count("violations:" + prop)
        if sum(1 for v in self.violations if v["mechanism"] == mechanism) >= 5:
            return
        rec = {"property": prop, "mechanism": mechanism, "summary": summary[:1500], "test": os.environ.get("PYTEST_CURRENT_TEST", ""), **extra}
        self.violations.append(rec)

    def dump(self):
        if self.path:
            with open(self.path, "w") as f:
                json.dump({"counts": self.counts, "violations": self.violations}, f, default=str)


class Guard:
    """re-entrancy guard: monitors never judge calls made by their own oracles"""

    def __init__(self):
        self.busy = 0

    def __enter__(self):
        self.busy += 1
        return self

    def __exit__(self, *a):
        self.busy -= 1


GUARD = Guard()


def install_all(log, which=("node", "subst", "quiescent", "simplify", "sim")):
    un = []
    if "node" in which:
        un.append(install_node(log))
    if "subst" in which:
        un.append(install_subst(log))
    if "quiescent" in which:
        un.append(install_quiescent(log))
    if "simplify" in which:
        un.append(install_simplify(log))
    if "sim" in which:
        un.append(install_sim(log))
    if "state" in which:
        from vk.mon import statemon

        un.append(statemon.install(log))
    for name, fn in (("kind", install_kind), ("clone", install_clone), ("kindorder", install_kindorder), ("dnf", install_dnf), ("types", install_types), ("names", install_names)):
        if name in which:
            un.append(fn(log))

    def uninstall():
        for u in reversed(un):
            u()

    return uninstall


# ---------------------------------------------------------------------------------------------------------------- M-node
def install_node(log):
    from unified_planning.model.expression import ExpressionManager
    from vk.checks.c16 import payload_key, read_node

    orig = ExpressionManager.create_node
    shadow = {}  # (id(em), key) -> node
    outcome = {}
    ids = {}

    def create_node(em, node_type, args, payload=None):
        try:
            n = orig(em, node_type, args, payload)
            ex = None
        except BaseException as e:
            n, ex = None, e
        if not GUARD.busy:
            try:
                key = (id(em), node_type, tuple(id(a) for a in args), payload_key(payload) if payload is not None else None)
                hash(key)
            except TypeError:
                key = None
            if key is not None:
                log.count("M-node:events")
                out = "node" if n is not None else type(ex).__name__
                prev = outcome.get(key)
                if prev is not None and prev != out:
                    log.violation("C16", "construction-outcome-changed", f"create_node({node_type.name}) gave {prev} before and {out} now")
                outcome[key] = out
                if n is not None:
                    old = shadow.get(key)
                    if old is not None:
                        log.count("M-node:repeats")
                        if old is not n:
                            log.violation("C16", "same-key-different-node", f"constructing {n} twice gave two different nodes")
                    else:
                        s = ids.setdefault(id(em), set())
                        if n.node_id in s:
                            log.violation("C16", "id-reused", f"new node {n} received the already used id {n.node_id}")
                        s.add(n.node_id)
                        shadow[key] = n
                        rn = read_node(n)
                        if rn[0] != node_type or rn[1] != key[2]:
                            log.violation("C16", "node-content-differs-from-request", f"create_node({node_type.name}) returned {n}")
        if ex is not None:
            raise ex
        return n

    ExpressionManager.create_node = create_node
    return lambda: setattr(ExpressionManager, "create_node", orig)


# --------------------------------------------------------------------------------------------------------------- M-subst
def install_subst(log):
    from unified_planning.model.walkers.substituter import Substituter
    from unified_planning.exceptions import UPException
    from vk.ref import subst as rsub

    orig = Substituter.substitute

    def substitute(self, expression, substitutions={}):
        if GUARD.busy or not substitutions:
            return orig(self, expression, substitutions)
        exp = None
        try:
            with GUARD:
                m = {}
                ok = True
                for k, v in substitutions.items():
                    nk, nv = self.manager.auto_promote(k, v)
                    if not nk.type.is_compatible(nv.type):
                        ok = False
                    m[nk] = nv
                if ok:
                    exp, hits = rsub.substitute(expression, m)
        except (UPException, ZeroDivisionError, NotImplementedError, AssertionError):
            exp = None
        got = orig(self, expression, substitutions)
        if exp is not None:
            log.count("M-subst:judged")
            if got is not exp:
                log.violation("C13", "result-differs", f"substitute({expression}, {substitutions}) = {got}, expected {exp}")
        return got

    Substituter.substitute = substitute
    return lambda: setattr(Substituter, "substitute", orig)


# ----------------------------------------------------------------------------------------------------------- M-quiescent
def install_quiescent(log):
    from unified_planning.model.walkers.dag import DagWalker

    orig = DagWalker.walk
    depth = {}

    def walk(w, expression, **kwargs):
        k = id(w)
        depth[k] = depth.get(k, 0) + 1
        raised = False
        try:
            return orig(w, expression, **kwargs)
        except BaseException:
            raised = True
            raise
        finally:
            depth[k] -= 1
            if depth[k] == 0:
                del depth[k]
                log.count("M-quiescent:walks")
                if raised:
                    log.count("M-quiescent:raising_walks")
                if w.stack:
                    log.violation("C14", f"walker-not-quiescent:{type(w).__name__}:{'after-raise' if raised else 'after-return'}", f"{type(w).__name__} kept {len(w.stack)} pending stack entries after a top-level walk")

    DagWalker.walk = walk
    return lambda: setattr(DagWalker, "walk", orig)


# ------------------------------------------------------------------------------------------------------------ M-simplify
class _NoProblem:
    """Stand-in 'problem' for expressions that carry no quantifiers / user-typed free leaves."""

    all_objects = ()


def _leaves(e):
    fl, ps, vs, quant, timing = {}, {}, {}, False, False
    st = [e]
    while st:
        x = st.pop()
        if x.is_fluent_exp():
            fl[x] = x
        elif x.is_parameter_exp():
            ps[x.parameter().name] = x.parameter().type
        elif x.is_variable_exp():
            vs[x.variable().name] = x.variable().type
        elif x.is_exists() or x.is_forall():
            quant = True
        elif x.is_timing_exp() or x.is_present_exp() or x.is_dot() or x.node_type.name in ("ALWAYS", "SOMETIME", "SOMETIME_BEFORE", "SOMETIME_AFTER", "AT_MOST_ONCE"):
            timing = True
        st.extend(x.args)
    return fl, ps, vs, quant, timing


def _sample_type(rng, t):
    if t.is_bool_type():
        return rng.choice([False, True])
    if t.is_int_type() or t.is_real_type():
        lb, ub = t.lower_bound, t.upper_bound
        cands = [0, 1, -1, 2, 5, -7, 2**53 + 1]
        if t.is_real_type():
            cands += [Fraction(1, 3), Fraction(-5, 2)]
        cands += [x for x in (lb, ub) if x is not None]
        cands = [c for c in cands if (lb is None or c >= lb) and (ub is None or c <= ub)]
        return rng.choice(cands) if cands else (lb if lb is not None else 0)
    return None


def install_simplify(log, budget=8):
    from unified_planning.model.walkers.simplifier import Simplifier
    from vk.ref.evalx import Interp, ev, UNDEF, free_vars, Unsupported

    orig = Simplifier.simplify
    seen = set()
    rng = random.Random(12345)

    def simplify(self, expression):
        res = orig(self, expression)
        if GUARD.busy or type(self) is not Simplifier:
            return res
        key = (id(self), expression)
        if key in seen:
            return res
        seen.add(key)
        try:
            with GUARD:
                log.count("M-simplify:calls")
                if not free_vars(res) <= free_vars(expression):
                    log.violation("C11", "new-free-variable", f"simplify({expression}) = {res} introduces free variables")
                again = orig(self, res)
                if again is not res:
                    log.violation("C11", "not-idempotent", f"simplify({expression}) = {res}, simplifying again gives {again}")
                fl, ps, vs, quant, timing = _leaves(expression)
                if quant or timing or self.problem is not None:
                    return res
                # ground fluent leaves only (arguments constants), numeric/bool params and no user-typed leaves
                keys = {}
                for f in fl:
                    if any(not (a.is_constant() or a.is_object_exp()) for a in f.args):
                        return res
                    t = f.fluent().type
                    if t.is_user_type():
                        return res
                    from vk.ref.evalx import const_value

                    keys[(f.fluent().name, tuple(const_value(a) for a in f.args))] = t
                if any(t.is_user_type() for t in list(ps.values()) + list(vs.values())):
                    return res
                judged = 0
                for _ in range(budget):
                    I = Interp(_NoProblem, {k: _sample_type(rng, t) for k, t in keys.items()}, {n: _sample_type(rng, t) for n, t in ps.items()}, {n: _sample_type(rng, t) for n, t in vs.items()})
                    try:
                        a = ev(expression, I, "strict")
                        if a is UNDEF:
                            continue
                        b = ev(res, I, "strict")
                    except (Unsupported, ZeroDivisionError, TypeError, AttributeError):
                        break
                    judged += 1
                    same = (a is b) if isinstance(a, bool) or isinstance(b, bool) else (a == b)
                    if isinstance(a, bool) and isinstance(b, bool):
                        same = a == b
                    if b is UNDEF or not same:
                        log.violation("C11", "value-changed", f"simplify({expression}) = {res}: {a} became {b} under {I.fluents} {I.params}")
                        break
                if judged:
                    log.count("M-simplify:judged")
        except Exception:
            log.count("M-simplify:monitor_errors")
        return res

    Simplifier.simplify = simplify
    return lambda: setattr(Simplifier, "simplify", orig)


# ------------------------------------------------------------------------------------------------------------------ M-sim
def install_sim(log, max_ground=300):
    from unified_planning.engines.sequential_simulator import UPSequentialSimulator
    from unified_planning.model import UPState
    from vk.ref import seqsem
    from vk.ref.evalx import const_value, Unsupported

    orig_apply = UPSequentialSimulator._apply
    orig_app = UPSequentialSimulator._is_applicable
    info = {}

    def prep(sim):
        k = id(sim)
        if k not in info:
            pb = sim._problem
            ok = None
            try:
                if type(pb).__name__ == "Problem" and not pb.kind.has_simulated_effects():
                    gfl = seqsem.ground_fluents(pb)
                    if len(gfl) <= max_ground:
                        ok = gfl
            except Exception:
                ok = None
            info[k] = ok
        return info[k]

    def judge(sim, state, action, params, got_state, got_app):
        gfl = prep(sim)
        if gfl is None or not isinstance(state, UPState):
            return
        pb = sim._problem
        try:
            args = tuple(const_value(p) for p in params)
            rs = seqsem.read_state(pb, state, gfl)
            r = seqsem.succ(pb, rs, action, args)
        except (Unsupported, Exception):
            log.count("M-sim:unsupported")
            return
        log.count("M-sim:judged")
        if r.status == seqsem.DONTCARE:
            log.count("M-sim:dontcare")
            return
        if got_app is not None:
            if bool(got_app) != (r.status == seqsem.OKAY):
                log.violation("C01", "is_applicable-mismatch:" + str(r.reason), f"{action.name}{args} in {seqsem.show_state(rs)}: is_applicable={got_app}, reference {r.status}/{r.reason}")
            return
        if (got_state is not None) != (r.status == seqsem.OKAY):
            log.violation("C01", "apply-mismatch:" + str(r.reason), f"{action.name}{args} in {seqsem.show_state(rs)}: apply returned {'a state' if got_state is not None else None}, reference {r.status}/{r.reason}")
        elif got_state is not None:
            ns = seqsem.read_state(pb, got_state, gfl)
            if ns != r.state:
                log.violation("C01", "successor-mismatch", f"{action.name}{args} in {seqsem.show_state(rs)}: successor {seqsem.show_state(ns)}, reference {seqsem.show_state(r.state)}")

    def _apply(self, state, action, parameters):
        res = orig_apply(self, state, action, parameters)
        if not GUARD.busy:
            with GUARD:
                try:
                    judge(self, state, action, parameters, res, None)
                except Exception:
                    log.count("M-sim:monitor_errors")
        return res

    def _is_applicable(self, state, action, parameters):
        res = orig_app(self, state, action, parameters)
        if not GUARD.busy:
            with GUARD:
                try:
                    judge(self, state, action, parameters, None, res)
                except Exception:
                    log.count("M-sim:monitor_errors")
        return res

    UPSequentialSimulator._apply = _apply
    UPSequentialSimulator._is_applicable = _is_applicable

    def un():
        UPSequentialSimulator._apply = orig_apply
        UPSequentialSimulator._is_applicable = orig_app

    return un


# ------------------------------------------------------------------------------------------------------------ helpers (2)
def _test_id():
    return os.environ.get("PYTEST_CURRENT_TEST", "").split(" (")[0]


class _PerTest:
    """budget per running test (the test id is read from PYTEST_CURRENT_TEST): at most `cap` units per test"""

    def __init__(self, cap):
        self.cap = cap
        self.test = None
        self.used = 0

    def take(self):
        t = _test_id()
        if t != self.test:
            self.test, self.used = t, 0
        if self.used >= self.cap:
            return False
        self.used += 1
        return True


def _problem_classes():
    """the concrete problem classes that define their own `kind` / `clone`"""
    from unified_planning.model import Problem
    from unified_planning.model.contingent import ContingentProblem
    from unified_planning.model.htn import HierarchicalProblem
    from unified_planning.model.multi_agent import MultiAgentProblem
    from unified_planning.model.scheduling import SchedulingProblem

    out = [Problem, ContingentProblem, HierarchicalProblem, MultiAgentProblem, SchedulingProblem]
    try:
        from unified_planning.model.motion.scheduling_motion_problem import SchedulingMotionProblem

        out.append(SchedulingMotionProblem)
    except Exception:
        pass
    return out


# ----------------------------------------------------------------------------------------------------------------- M-kind
def install_kind(log, per_test=500):
    """Every `<problem>.kind` evaluated by the workload (outermost evaluation only: ContingentProblem.kind calls
    Problem.kind) is judged against the from-scratch syntactic extractor of C10 (vk/ref/kindx.py): every requirement
    found at some syntactic position must be met by the returned feature set. Don't-care classes = those of kindx."""
    from vk.ref import kindx
    from vk.checks import c10 as _c10

    depth = [0]
    budget = _PerTest(per_test)
    saved = []

    def judge(pb, kind):
        pc, reqs, notes = kindx.extract(pb)
        if pc is None:
            log.count("M-kind:unknown_problem_class")
            return
        feats = set(kind.features)
        log.count("M-kind:judged")
        log.count("M-kind:class:" + pc)
        for k, v in notes.items():
            log.count("M-kind:" + k, v)
        miss = kindx.missing(reqs, feats)
        if not miss:
            return
        fresh = None
        try:
            fresh = set(pb.clone().kind.features)  # diagnosis only (mechanism string), as in vk/checks/c10.py
        except Exception:
            fresh = None
        by_mech = {}
        for alts, label, family, pos in miss:
            if fresh is not None and any(a in fresh for a in alts):
                mech = f"stale-kind-after-mutation:{family}"
            elif pc == "ma" and pos.startswith("ma:agent-fluent") and _c10._only_from_name_sharing_fluents(pb, alts, pos):
                mech = "missing:ma:agent-fluent-sharing-its-name-with-a-fluent-of-another-agent"
            else:
                mech = _c10.mechanism(pos, family)
            by_mech.setdefault(mech, []).append(f"{'|'.join(alts)} (used at {pos})")
        for mech, items in sorted(by_mech.items()):
            log.violation("C10", mech, f"kind of {type(pb).__name__} '{pb.name}' lacks " + "; ".join(items[:4]), kind_features=sorted(feats))

    def make(fget):
        def kind(self):
            depth[0] += 1
            try:
                k = fget(self)
            except BaseException as e:
                if depth[0] == 1 and not GUARD.busy:
                    log.count("M-kind:raises:" + type(e).__name__)
                raise
            finally:
                depth[0] -= 1
            if depth[0] == 0 and not GUARD.busy:
                log.count("M-kind:evaluations")
                if budget.take():
                    with GUARD:
                        try:
                            judge(self, k)
                        except Exception:
                            log.count("M-kind:monitor_errors")
                else:
                    log.count("M-kind:over_budget_not_judged")
            return k

        return kind

    for cls in _problem_classes():
        p = cls.__dict__.get("kind")
        if isinstance(p, property):
            saved.append((cls, p))
            setattr(cls, "kind", property(make(p.fget), doc=p.__doc__))

    def un():
        for cls, p in saved:
            setattr(cls, "kind", p)

    return un


# ---------------------------------------------------------------------------------------------------------------- M-clone
_PROBE = "vk_probe_"


def _probe_problem(C2, note):
    """Edits a problem through the public model-building API (every edit may be rejected: only applied edits count)."""
    import unified_planning as up
    from unified_planning.model import Fluent, InstantaneousAction, DurativeAction, StartTiming, EndTiming, GlobalStartTiming
    from unified_planning.model.multi_agent import MultiAgentProblem
    from unified_planning.model.scheduling import SchedulingProblem
    from unified_planning.model.htn import HierarchicalProblem

    env = C2.environment
    em = env.expression_manager
    fl = Fluent(_PROBE + "f", env.type_manager.BoolType(), environment=env)

    def edit(name, fn):
        try:
            fn()
            note(name)
        except Exception:
            pass

    def edit_action(a, tag):
        if isinstance(a, InstantaneousAction):
            edit(tag + "add_precondition", lambda: a.add_precondition(em.FluentExp(fl)))
            edit(tag + "add_effect", lambda: a.add_effect(em.FluentExp(fl), em.TRUE()))
        elif isinstance(a, DurativeAction):
            edit(tag + "add_condition", lambda: a.add_condition(StartTiming(), em.FluentExp(fl)))
            edit(tag + "add_effect", lambda: a.add_effect(EndTiming(), em.FluentExp(fl), em.TRUE()))
        edit(tag + "rename", lambda: setattr(a, "name", a.name + "_" + _PROBE))

    if isinstance(C2, MultiAgentProblem):
        edit("env.add_fluent", lambda: C2.ma_environment.add_fluent(fl, default_initial_value=False))
        for ag in list(C2.agents)[:2]:
            for a in list(ag.actions)[:2]:
                edit_action(a, "agent.action.")
            edit("agent.add_fluent", lambda ag=ag: ag.add_fluent(Fluent(_PROBE + "g", env.type_manager.BoolType(), environment=env), default_initial_value=False))
            edit("agent.add_public_goal", lambda ag=ag: ag.add_public_goal(em.FluentExp(fl)))
        edit("add_goal", lambda: C2.add_goal(em.FluentExp(fl)))
        edit("add_agent", lambda: C2.add_agent(up.model.multi_agent.Agent(_PROBE + "agent", C2)))
    else:
        edit("add_fluent", lambda: C2.add_fluent(fl, default_initial_value=False))
        if isinstance(C2, SchedulingProblem):
            for act in list(C2.activities)[:2]:
                edit("activity.add_condition", lambda act=act: act.add_condition(StartTiming(), em.FluentExp(fl)))
                edit("activity.add_effect", lambda act=act: act.add_effect(act.end, em.FluentExp(fl), em.TRUE()))
            edit("add_activity", lambda: C2.add_activity(_PROBE + "activity", duration=1))
            edit("add_constraint", lambda: C2.add_constraint(em.FluentExp(fl)))
            edit("add_condition", lambda: C2.add_condition(GlobalStartTiming(3), em.FluentExp(fl)))
            edit("add_effect", lambda: C2.add_effect(GlobalStartTiming(3), em.FluentExp(fl), em.TRUE()))
        else:
            for a in list(C2.actions)[:3]:
                edit_action(a, "action.")
            edit("add_goal", lambda: C2.add_goal(em.FluentExp(fl)))
            edit("add_timed_goal", lambda: C2.add_timed_goal(GlobalStartTiming(3), em.FluentExp(fl)))
            edit("add_timed_effect", lambda: C2.add_timed_effect(GlobalStartTiming(3), em.FluentExp(fl), em.TRUE()))
            edit("add_state_invariant", lambda: C2.add_state_invariant(em.FluentExp(fl)))
            edit("add_action", lambda: C2.add_action(InstantaneousAction(_PROBE + "action", _env=env)))
            if isinstance(C2, HierarchicalProblem):
                for m in list(C2.methods)[:2]:
                    edit("method.add_precondition", lambda m=m: m.add_precondition(em.FluentExp(fl)))
                edit("add_task", lambda: C2.add_task(_PROBE + "task"))
                edit("task_network.add_constraint", lambda: C2.task_network.add_constraint(em.FluentExp(fl)))
        edit("add_quality_metric", lambda: C2.add_quality_metric(up.model.metrics.MinimizeMakespan(environment=env)))
    uts = list(C2.user_types)
    if uts:
        edit("add_object", lambda: C2.add_object(_PROBE + "o", uts[0]))
    for k, v in list(C2.explicit_initial_values.items())[:2]:
        if v.is_bool_constant():
            edit("set_initial_value", lambda k=k, v=v: C2.set_initial_value(k, not v.bool_constant_value()))
    edit("rename", lambda: setattr(C2, "name", (C2.name or "") + "_" + _PROBE))


def _probe_action(A2, note):
    from unified_planning.model import Fluent, InstantaneousAction, DurativeAction, StartTiming, EndTiming

    env = A2.environment
    em = env.expression_manager
    fl = Fluent(_PROBE + "f", env.type_manager.BoolType(), environment=env)

    def edit(name, fn):
        try:
            fn()
            note(name)
        except Exception:
            pass

    if isinstance(A2, InstantaneousAction):
        edit("add_precondition", lambda: A2.add_precondition(em.FluentExp(fl)))
        edit("add_effect", lambda: A2.add_effect(em.FluentExp(fl), em.TRUE()))
        for e in list(A2.effects)[:1]:
            edit("effect.set_condition", lambda e=e: e.set_condition(em.FluentExp(fl)))
    elif isinstance(A2, DurativeAction):
        edit("add_condition", lambda: A2.add_condition(StartTiming(), em.FluentExp(fl)))
        edit("add_effect", lambda: A2.add_effect(EndTiming(), em.FluentExp(fl), em.TRUE()))
        edit("set_fixed_duration", lambda: A2.set_fixed_duration(977))
        for t, el in list(A2.effects.items())[:1]:
            for e in el[:1]:
                edit("effect.set_condition", lambda e=e: e.set_condition(em.FluentExp(fl)))
    else:
        edit("add_precondition", lambda: A2.add_precondition(em.FluentExp(fl)))
        edit("add_effect", lambda: A2.add_effect(em.FluentExp(fl), em.TRUE()))
    edit("rename", lambda: setattr(A2, "name", A2.name + "_" + _PROBE))


def install_clone(log, per_test=600, deep_per_test=4):
    """Every clone() of a problem (Problem, Contingent-, Hierarchical-, MultiAgent-, Scheduling-) and every *direct* clone() of an
    action / event / process made by the workload: same class, clone == original both ways, equal hashes; for the first
    few clones of every test also equal kinds and an independence probe that never touches an object the workload owns:
    a SECOND clone is edited through the public model-building API and the original's canonical form (repr) must not change."""
    from vk.checks import c22 as _c22

    depth = [0]
    budget = _PerTest(per_test)
    deep = _PerTest(deep_per_test)
    deep_a = _PerTest(deep_per_test)
    saved = []
    pclasses = _problem_classes()

    def action_classes():
        from unified_planning.model import InstantaneousAction, DurativeAction
        from unified_planning.model.contingent import SensingAction

        out = [InstantaneousAction, DurativeAction, SensingAction]
        try:
            from unified_planning.model.natural_transition import Process, Event

            out += [Process, Event]
        except Exception:
            pass
        return out

    def selfeq(x):
        try:
            return bool(x == x)
        except Exception:
            return None

    def judge_problem(P, C, orig):
        cls = type(P).__name__
        log.count("M-clone:judged")
        log.count("M-clone:problem:" + cls)
        if type(C) is not type(P):
            log.violation("C22", f"clone-class-differs:{cls}", f"clone of a {cls} is a {type(C).__name__}")
            return
        try:
            e1, e2 = bool(C == P), bool(P == C)
        except Exception as e:
            if selfeq(P) is None:
                log.count(f"M-clone:dontcare_eq_raises_even_on_self:{cls}")
            else:
                log.violation("C22", f"eq-raises-after-clone:{cls}:{type(e).__name__}", f"comparing clone and original of '{P.name}' raised {e!r}")
            return
        if not (e1 and e2):
            comps = _c22.differing(cls, P, C, True) if cls in _c22.CLASSES else []
            for comp in comps or ["unknown"]:
                log.violation("C22", f"clone-not-equal:{cls}:{comp}", f"{cls} '{P.name}': clone == original is {e1}, original == clone is {e2}; differing components: {comps}")
            return
        try:
            if hash(C) != hash(P):
                log.violation("C22", f"clone-hash-differs:{cls}", f"{cls} '{P.name}': clone == original but the hashes differ")
        except Exception as e:
            log.violation("C22", f"hash-raises:{cls}:{type(e).__name__}", f"hash raised {e!r}")
        if not deep.take():
            return
        # ---- same kind
        try:
            kp = P.kind
        except Exception:
            kp = None
        if kp is not None:
            log.count("M-clone:kinds_compared")
            try:
                kc = C.kind
                if not (kc == kp):
                    log.violation("C22", f"clone-kind-differs:{cls}", f"{cls} '{P.name}': kinds differ: {sorted(set(kp.features) ^ set(kc.features))}")
            except Exception as e:
                log.violation("C22", f"clone-kind-differs:{cls}", f"{cls} '{P.name}': kind of the clone raised {e!r}")
        # ---- independence: edit a second clone, the original (and the clone handed to the workload) must not change
        before_p, before_c = repr(P), repr(C)
        C2 = orig(P)
        applied = []
        _probe_problem(C2, applied.append)
        log.count("M-clone:independence_probes")
        log.count("M-clone:probe_edits_applied", len(applied))
        if repr(P) != before_p:
            log.violation("C22", f"not-independent:{cls}", f"{cls} '{P.name}': editing a clone ({', '.join(applied)}) changed the original")
        elif repr(C) != before_c:
            log.violation("C22", f"not-independent:{cls}:sibling-clone", f"{cls} '{P.name}': editing a clone ({', '.join(applied)}) changed another clone of the same problem")

    def judge_action(A, C, orig):
        cls = type(A).__name__
        log.count("M-clone:judged")
        log.count("M-clone:action:" + cls)
        if type(C) is not type(A):
            log.violation("C22", f"action-clone-class-differs:{cls}", f"clone of a {cls} is a {type(C).__name__}")
            return
        try:
            e1, e2 = bool(C == A), bool(A == C)
        except Exception as e:
            if selfeq(A) is None:
                log.count(f"M-clone:dontcare_eq_raises_even_on_self:{cls}")
            else:
                log.violation("C22", f"action-eq-raises-after-clone:{cls}:{type(e).__name__}", f"comparing clone and original of action '{A.name}' raised {e!r}")
            return
        if not (e1 and e2):
            log.violation("C22", f"action-clone-not-equal:{cls}", f"{cls} '{A.name}': clone == original is {e1}, original == clone is {e2}")
            return
        if hash(C) != hash(A):
            log.violation("C22", f"action-clone-hash-differs:{cls}", f"{cls} '{A.name}': clone == original but the hashes differ")
        if not deep_a.take():
            return
        before_a, before_c = repr(A), repr(C)
        A2 = orig(A)
        applied = []
        _probe_action(A2, applied.append)
        log.count("M-clone:independence_probes")
        log.count("M-clone:probe_edits_applied", len(applied))
        if repr(A) != before_a:
            log.violation("C22", f"action-clone-not-independent:{cls}", f"{cls} '{A.name}': editing a clone ({', '.join(applied)}) changed the original")
        elif repr(C) != before_c:
            log.violation("C22", f"action-clone-not-independent:{cls}:sibling-clone", f"{cls} '{A.name}': editing a clone ({', '.join(applied)}) changed another clone")

    def make(orig, judge):
        def clone(self, *a, **kw):
            depth[0] += 1
            try:
                c = orig(self, *a, **kw)
            finally:
                depth[0] -= 1
            if depth[0] == 0 and not GUARD.busy and not a and not kw:
                log.count("M-clone:calls")
                if budget.take():
                    with GUARD:
                        try:
                            judge(self, c, orig)
                        except Exception:
                            log.count("M-clone:monitor_errors")
                else:
                    log.count("M-clone:over_budget_not_judged")
            return c

        return clone

    for cls in pclasses:
        f = cls.__dict__.get("clone")
        if f is not None:
            saved.append((cls, f))
            setattr(cls, "clone", make(f, judge_problem))
    for cls in action_classes():
        f = cls.__dict__.get("clone")
        if f is not None:
            saved.append((cls, f))
            setattr(cls, "clone", make(f, judge_action))

    def un():
        for cls, f in saved:
            setattr(cls, "clone", f)

    return un


# ------------------------------------------------------------------------------------------------------------ M-kindorder
def install_kindorder(log):
    """Every ProblemKind ==, <=, hash, union, intersection evaluated by the workload is compared with the set-of-features
    model of C33 (vk/ref/lattice.py). Operands are read (public accessors) BEFORE the call: `<=` prunes its operands."""
    from unified_planning.model.problem_kind import ProblemKind
    from vk.ref import lattice as L

    o_eq, o_le, o_hash, o_union, o_inter = ProblemKind.__eq__, ProblemKind.__le__, ProblemKind.__hash__, ProblemKind.union, ProblemKind.intersection
    hashes = {}  # (version, valid features) -> (hash, repr)

    def model(k):
        return L.K(frozenset(k.features), k.version)

    def show(m):
        return f"ProblemKind({sorted(m.raw)}, version={m.version})"

    def guarded(fn):
        try:
            with GUARD:
                fn()
        except Exception:
            log.count("M-kindorder:monitor_errors")

    def __eq__(self, oth):
        if GUARD.busy or not isinstance(oth, ProblemKind):
            return o_eq(self, oth)
        try:
            ma, mb = model(self), model(oth)
        except Exception:
            ma = mb = None
        r = o_eq(self, oth)

        def j():
            log.count("M-kindorder:judged")
            log.count("M-kindorder:eq")
            if ma.version != mb.version:
                log.count("M-kindorder:cross_version")
                if r:
                    log.violation("C33", "kinds-of-different-versions-equal", f"{show(ma)} == {show(mb)} although their versions differ")
            elif bool(r) != L.eq(ma, mb):
                log.violation("C33", "eq-differs-from-set-model", f"{show(ma)} == {show(mb)} is {r}; the valid feature sets are {sorted(ma.feats)} / {sorted(mb.feats)}")

        if ma is not None and r is not NotImplemented:
            guarded(j)
        return r

    def __le__(self, oth):
        if GUARD.busy or not isinstance(oth, ProblemKind):
            return o_le(self, oth)
        try:
            ma, mb = model(self), model(oth)
        except Exception:
            ma = mb = None
        r = o_le(self, oth)

        def j():
            log.count("M-kindorder:judged")
            log.count("M-kindorder:le")
            exp = L.le(ma, mb)
            if ma.version != mb.version:
                log.count("M-kindorder:cross_version")
                if bool(r) != exp:
                    log.violation("C33", "cross-version-le-differs-from-upgrade-model", f"{show(ma)} <= {show(mb)} is {r}; upgrading the older one gives {exp}")
            elif bool(r) != exp:
                log.violation("C33", "le-differs-from-set-model", f"{show(ma)} <= {show(mb)} is {r}; the valid feature sets {sorted(ma.feats)} / {sorted(mb.feats)} give {exp}")
            if self is oth and not r:
                log.violation("C33", "not-reflexive", f"{show(ma)} is not <= itself")

        if ma is not None:
            guarded(j)
        return r

    def __hash__(self):
        r = o_hash(self)
        if GUARD.busy:
            return r

        def j():
            m = model(self)
            log.count("M-kindorder:judged")
            log.count("M-kindorder:hash")
            key = (m.version, m.feats)
            prev = hashes.get(key)
            if prev is None:
                hashes[key] = (r, m.raw)
            elif prev[0] != r:
                only_dep = all(not L.is_valid(f, m.version) for f in set(prev[1]) ^ set(m.raw))
                log.violation("C33", "equal-kinds-hash-differ" + (":deprecated-features" if only_dep and prev[1] != m.raw else ""), f"{show(m)} and ProblemKind({sorted(prev[1])}, version={m.version}) are equal kinds with different hashes")

        guarded(j)
        return r

    def binop(orig, name, mop, up):
        def op(self, oth):
            if GUARD.busy or not isinstance(oth, ProblemKind):
                return orig(self, oth)
            try:
                ma, mb = model(self), model(oth)
            except Exception:
                ma = mb = None
            r = orig(self, oth)

            def j():
                log.count("M-kindorder:judged")
                log.count("M-kindorder:" + name)
                mr = model(r)
                w = max(ma.version, mb.version)
                if ma.version == mb.version:
                    if r.version != w:
                        log.violation("C33", f"{name}-changes-version", f"{name} of two version-{w} kinds has version {r.version}")
                    elif mr.feats != mop(ma, mb).feats:
                        log.violation("C33", f"{name}-differs-from-set-model", f"{name}({show(ma)}, {show(mb)}) = {show(mr)}; the set model gives {sorted(mop(ma, mb).feats)}")
                else:
                    log.count("M-kindorder:cross_version")
                    if up:
                        if r.version != w:
                            log.violation("C33", "union-keeps-lower-version", f"union of versions {ma.version} and {mb.version} has version {r.version}")
                        elif not (L.le(ma, mr) and L.le(mb, mr)):
                            log.violation("C33", "cross-version-union-is-not-a-bound", f"union({show(ma)}, {show(mb)}) = {show(mr)} is not above both arguments")

            if ma is not None:
                guarded(j)
            return r

        return op

    ProblemKind.__eq__ = __eq__
    ProblemKind.__le__ = __le__
    ProblemKind.__hash__ = __hash__
    ProblemKind.union = binop(o_union, "union", L.union, True)
    ProblemKind.intersection = binop(o_inter, "intersection", L.intersection, False)

    def un():
        ProblemKind.__eq__, ProblemKind.__le__, ProblemKind.__hash__ = o_eq, o_le, o_hash
        ProblemKind.union, ProblemKind.intersection = o_union, o_inter

    return un


# ------------------------------------------------------------------------------------------- random first-order models
class _Unjudgeable(Exception):
    pass


_TEMPORAL_NODES = ("TIMING_EXP", "PRESENT_EXP", "DOT", "ALWAYS", "SOMETIME", "SOMETIME_BEFORE", "SOMETIME_AFTER", "AT_MOST_ONCE", "INTERPRETED_FUNCTION_EXP")


def _scan(exprs):
    """Leaves of a set of expressions: fluents by name, parameters, variables, objects by user type. Raises _Unjudgeable for
    anything the reference evaluator does not interpret (quantifiers are reported, not rejected)."""
    fl, ps, vs, objs, quant = {}, {}, {}, {}, False
    st = list(exprs)
    seen = set()
    while st:
        x = st.pop()
        if x in seen:
            continue
        seen.add(x)
        n = x.node_type.name
        if n in _TEMPORAL_NODES:
            raise _Unjudgeable(n)
        if x.is_fluent_exp():
            f = x.fluent()
            if fl.setdefault(f.name, f) is not f and fl[f.name] != f:
                raise _Unjudgeable("two-fluents-one-name")
        elif x.is_parameter_exp():
            p = x.parameter()
            if ps.setdefault(p.name, p.type) != p.type:
                raise _Unjudgeable("two-parameters-one-name")
        elif x.is_variable_exp():
            v = x.variable()
            if vs.setdefault(v.name, v.type) != v.type:
                raise _Unjudgeable("two-variables-one-name")
        elif x.is_object_exp():
            o = x.object()
            objs.setdefault(o.name, o.type)
        elif x.is_exists() or x.is_forall():
            quant = True
        st.extend(x.args)
    return fl, ps, vs, objs, quant


def _subtype(t, sup):
    while t is not None:
        if t == sup:
            return True
        t = t.father
    return False


class _Model:
    """A random first-order interpretation for vk.ref.evalx.ev: parameters / free variables get a value of their declared
    type, every fluent is a lazily filled random function table (fluent name, argument values) -> value of its type.
    User-typed values are names: the objects that occur in the expressions plus two fresh elements per type."""

    def __init__(self, rng, fl, ps, vs, objs, corner=0.5):
        self.rng, self.fl, self.objs, self.corner = rng, fl, objs, corner
        self.table = _Table(self)
        self.params = {n: self.value(t) for n, t in sorted(ps.items())}
        self.vars = {n: self.value(t) for n, t in sorted(vs.items())}

    def value(self, t):
        rng = self.rng
        if t.is_bool_type():
            return rng.random() < 0.5
        if t.is_user_type():
            pool = sorted(n for n, ot in self.objs.items() if _subtype(ot, t)) + [f"#{t.name}#1", f"#{t.name}#2"]
            return rng.choice(pool)
        if t.is_int_type() or t.is_real_type():
            lb, ub = t.lower_bound, t.upper_bound
            corners = [x for x in (lb, ub) if x is not None]
            if corners and rng.random() < self.corner:
                v = rng.choice(corners)
            else:
                cands = [0, 1, -1, 2, 3, 5, -7, 10, 2**53 + 1, -(10**18)]
                if t.is_real_type():
                    cands += [Fraction(1, 3), Fraction(-5, 2), Fraction(7, 2)]
                if lb is not None and ub is not None:
                    cands += [lb + (ub - lb) // 2 if t.is_int_type() else (Fraction(lb) + Fraction(ub)) / 2]
                    if t.is_int_type() and ub - lb < 64:
                        cands += [rng.randint(int(lb), int(ub))]
                cands = [c for c in cands if (lb is None or c >= lb) and (ub is None or c <= ub)]
                v = rng.choice(cands) if cands else (lb if lb is not None else ub)
            if t.is_int_type():
                return int(v)
            v = Fraction(v)
            return int(v) if v.denominator == 1 else v
        raise _Unjudgeable("type " + str(t))

    def interp(self):
        from vk.ref.evalx import Interp

        return Interp(_NoProblem, self.table, self.params, self.vars)


class _Table(dict):
    def __init__(self, model):
        super().__init__()
        self.model = model

    def get(self, key, default=None):
        if key not in self:
            f = self.model.fl.get(key[0])
            if f is None:
                return default
            self[key] = self.model.value(f.type)
        return self[key]


# ------------------------------------------------------------------------------------------------------------------ M-dnf
def install_dnf(log, models=24):
    """Every Nnf.get_nnf_expression / Dnf.get_dnf_expression result (quantifier-free inputs, as in C12's quantifier): shape
    predicates of vk/checks/c12.py and equal truth value of input and output under random first-order interpretations."""
    from unified_planning.model.walkers.dnf import Dnf, Nnf
    from vk.checks.c12 import nnf_shape, dnf_shape
    from vk.ref.evalx import ev, UNDEF, Unsupported

    o_nnf, o_dnf = Nnf.get_nnf_expression, Dnf.get_dnf_expression
    rng = random.Random(4242)
    seen = set()

    def judge(name, shape, e, out):
        key = (name, e)
        if key in seen:
            log.count(f"M-dnf:repeated_{name}")
            return
        seen.add(key)
        log.count("M-dnf:calls")
        try:
            fl, ps, vs, objs, quant = _scan([e, out])
        except _Unjudgeable as u:
            log.count("M-dnf:unjudged:" + str(u))
            return
        if quant:
            log.count("M-dnf:unjudged:quantified")
            return
        if not e.type.is_bool_type():
            log.count("M-dnf:unjudged:non-boolean")
            return
        log.count("M-dnf:judged")
        log.count("M-dnf:judged:" + name)
        sh = shape(out)
        if sh:
            log.violation("C12", f"{name}-shape", f"{name}({e}) = {out}: {sh}")
            return
        if out is not e:
            log.count("M-dnf:changed")
        n = 0
        for _ in range(models):
            try:
                m = _Model(rng, fl, ps, vs, objs, corner=0.2)
                I = m.interp()
                a = ev(e, I, "strict")
                if a is UNDEF:
                    continue
                b = ev(out, I, "strict")
            except (_Unjudgeable, Unsupported, ZeroDivisionError, TypeError, AttributeError, KeyError):
                log.count("M-dnf:model_unsupported")
                break
            n += 1
            if b is UNDEF or bool(a) != bool(b):
                log.violation("C12", f"{name}-not-equivalent", f"{name}({e}) = {out}: input is {a}, output is {b} under fluents={dict(m.table)} params={m.params} vars={m.vars}")
                break
        log.count("M-dnf:models", n)

    def get_nnf_expression(self, expression):
        out = o_nnf(self, expression)
        if not GUARD.busy:
            with GUARD:
                try:
                    judge("nnf", nnf_shape, expression, out)
                except Exception:
                    log.count("M-dnf:monitor_errors")
        return out

    def get_dnf_expression(self, expression):
        out = o_dnf(self, expression)
        if not GUARD.busy:
            with GUARD:
                try:
                    judge("dnf", dnf_shape, expression, out)
                except Exception:
                    log.count("M-dnf:monitor_errors")
        return out

    Nnf.get_nnf_expression = get_nnf_expression
    Dnf.get_dnf_expression = get_dnf_expression

    def un():
        Nnf.get_nnf_expression, Dnf.get_dnf_expression = o_nnf, o_dnf

    return un


# ---------------------------------------------------------------------------------------------------------------- M-types
def install_types(log, models=16):
    """Every TypeChecker.get_type result for an arithmetic expression (+ - * /, division by non-zero constants only): exact
    rational evaluation under random first-order interpretations whose leaves range over their declared types (corners of the
    declared intervals half of the time) must stay inside the inferred interval, integer-typed => integer value. Every
    Equals judged well-formed / ill-formed is re-judged with mirrored operand types: both must be accepted or both rejected."""
    from unified_planning.model.walkers.type_checker import TypeChecker
    from unified_planning.exceptions import UPTypeError
    from vk.ref.evalx import ev, UNDEF, Unsupported

    o_get = TypeChecker.get_type
    o_eq = TypeChecker.walk_equals
    rng = random.Random(1515)
    seen = set()
    ARITH = ("PLUS", "MINUS", "TIMES", "DIV")

    def judge_arith(e, t):
        st = [e]
        while st:
            x = st.pop()
            if x.is_div() and not x.arg(1).is_constant():
                log.count("M-types:dontcare:non-constant-divisor")
                return
            st.extend(x.args)
        try:
            fl, ps, vs, objs, quant = _scan([e])
        except _Unjudgeable as u:
            log.count("M-types:unjudged:" + str(u))
            return
        if quant:
            log.count("M-types:unjudged:quantified")
            return
        if not (t.is_int_type() or t.is_real_type()):
            log.violation("C15", "numeric-expression-non-numeric-type", f"type of the arithmetic expression {e} is {t}")
            return
        lo, hi = t.lower_bound, t.upper_bound
        log.count("M-types:judged")
        if lo is not None or hi is not None:
            log.count("M-types:with_finite_bound")
        n = 0
        for _ in range(models):
            try:
                m = _Model(rng, fl, ps, vs, objs, corner=0.6)
                v = ev(e, m.interp(), "strict")
            except (_Unjudgeable, Unsupported, ZeroDivisionError, TypeError, AttributeError, KeyError):
                log.count("M-types:model_unsupported")
                break
            if v is UNDEF or isinstance(v, (bool, str)):
                continue
            n += 1
            why = None
            if lo is not None and v < lo:
                why = "below"
            elif hi is not None and v > hi:
                why = "above"
            elif t.is_int_type() and Fraction(v).denominator != 1:
                why = "non-integer"
            if why:
                log.violation("C15", f"unsound-type:{e.node_type.name}:{why}", f"{e} has inferred type {t} but evaluates to {v} under fluents={dict(m.table)} params={m.params} vars={m.vars}")
                break
        log.count("M-types:points", n)

    def judge_equals(tc, e, accepted):
        ts = []
        for a in e.args:
            ts.append(o_get(tc, a))
        log.count("M-types:equalities")
        try:
            mirrored = o_eq(tc, e, list(reversed(ts))) is not None
        except UPTypeError:
            mirrored = False
        if ts[0] != ts[1]:
            log.count("M-types:equalities_of_different_types")
        if mirrored != accepted:

            def tclass(t):
                for n in ("bool", "int", "real", "time", "user"):
                    if getattr(t, f"is_{n}_type")():
                        return n
                return type(t).__name__

            pair = "-vs-".join(sorted(tclass(t) for t in ts))  # one string per root cause, whatever the operand order
            log.violation("C15", f"equality-asymmetric:{pair}", f"Equals of operand types ({ts[0]}, {ts[1]}) is {'accepted' if accepted else 'rejected'} but mirrored it is {'accepted' if mirrored else 'rejected'}: {e}")

    def get_type(self, expression):
        if GUARD.busy:
            return o_get(self, expression)
        key = (id(self), expression)
        if key in seen:
            return o_get(self, expression)
        try:
            t = o_get(self, expression)
            ex = None
        except UPTypeError as x:
            t, ex = None, x
        seen.add(key)
        log.count("M-types:calls")
        nt = expression.node_type.name
        with GUARD:
            try:
                if nt == "EQUALS" and len(expression.args) == 2:
                    judge_equals(self, expression, ex is None)
                elif ex is None and nt in ARITH:
                    judge_arith(expression, t)
            except Exception:
                log.count("M-types:monitor_errors")
        if ex is not None:
            raise ex
        return t

    TypeChecker.get_type = get_type
    return lambda: setattr(TypeChecker, "get_type", o_get)


# ---------------------------------------------------------------------------------------------------------------- M-names
class _LogRes:
    """The vk.core.Result API of the check modules on top of a monitor Log (lets a monitor reuse a check's judge function)."""

    def __init__(self, log, prop, prefix):
        self.log, self.prop, self.prefix = log, prop, prefix

    @property
    def violations(self):
        return self.log.violations

    def count(self, k, n=1):
        self.log.count(self.prefix + k, n)

    def case(self, n=1):
        pass

    def mon(self, n=1):
        pass

    def nt(self, k):
        pass

    def sample(self, o):
        pass

    def violation(self, mechanism, summary, witness=None):
        self.log.violation(self.prop, mechanism, summary)


def install_names(log):
    """Every PDDLWriter / ANMLWriter output produced by the workload: the names the observed writer object chose (its own
    get_pddl_name / get_item_named tables; the (item, name) pairs flowing through _get_anml_name) and the text it wrote are
    judged by the lexical oracle of C38 (vk/checks/c38.judge_pddl_output / judge_anml_output, vk/ref/names.py)."""
    from io import StringIO

    import unified_planning.io.anml_writer as aw
    from unified_planning.io.pddl_writer import PDDLWriter
    from unified_planning.model import Problem
    from vk.checks import c38 as _c38

    res = _LogRes(log, "C38", "M-names:")
    o_dom, o_prob, o_anml, o_name = PDDLWriter._write_domain, PDDLWriter._write_problem, aw.ANMLWriter._write_problem, aw._get_anml_name
    texts = {}  # id(writer) -> [writer, domain text, problem text]
    captures = []

    def judge_pddl(w):
        pb = w.problem
        if not isinstance(pb, Problem):
            log.count("M-names:unjudged:problem-class:" + type(pb).__name__)
            return
        _, dom, prob = texts[id(w)]
        log.count("M-names:judged")
        _c38.judge_pddl_output(w, dom or "", prob or "", _c38.item_groups(pb, {}), {"history": "suite"}, res, False)

    def pddl(orig, slot):
        def write(self, out):
            if GUARD.busy:
                return orig(self, out)
            buf = StringIO()
            try:
                r = orig(self, buf)
            finally:
                out.write(buf.getvalue())
            with GUARD:
                try:
                    ent = texts.get(id(self))
                    if ent is None or ent[0] is not self:
                        if len(texts) > 64:
                            texts.clear()
                        ent = texts[id(self)] = [self, None, None]
                    ent[slot] = buf.getvalue()
                    judge_pddl(self)
                except Exception:
                    log.count("M-names:monitor_errors")
            return r

        return write

    def _get_anml_name(item, names_mapping):
        n = o_name(item, names_mapping)
        if captures:
            captures[-1].append((item, n))
        return n

    def anml(self, out):
        if GUARD.busy:
            return o_anml(self, out)
        buf = StringIO()
        captures.append([])
        try:
            r = o_anml(self, buf)
        finally:
            pairs = captures.pop()
            out.write(buf.getvalue())
        with GUARD:
            try:
                pb = self.problem
                if isinstance(pb, Problem):
                    log.count("M-names:judged")
                    _c38.judge_anml_output(pairs, buf.getvalue(), _c38.item_groups(pb, {}), {}, {}, res)
                else:
                    log.count("M-names:unjudged:problem-class:" + type(pb).__name__)
            except Exception:
                log.count("M-names:monitor_errors")
        return r

    PDDLWriter._write_domain = pddl(o_dom, 1)
    PDDLWriter._write_problem = pddl(o_prob, 2)
    aw.ANMLWriter._write_problem = anml
    aw._get_anml_name = _get_anml_name

    def un():
        PDDLWriter._write_domain, PDDLWriter._write_problem = o_dom, o_prob
        aw.ANMLWriter._write_problem = o_anml
        aw._get_anml_name = o_name

    return un

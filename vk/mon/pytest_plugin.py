"""pytest plug-in: `-p vk.mon.pytest_plugin` installs the universal monitors named in VK_MON (comma list) for the whole session
and dumps their log to $VK_MON_LOG.<worker>.json. The tests' own pass/fail is not the verdict; the monitors' log is."""
import os

_state = {}


def pytest_configure(config):
    from vk import env as _env  # noqa: F401  (sys.path -> repository under test)
    from vk.mon import universal

    which = tuple(x for x in os.environ.get("VK_MON", "node,subst,quiescent").split(",") if x)
    worker = os.environ.get("PYTEST_XDIST_WORKER", "main")
    path = os.environ.get("VK_MON_LOG")
    log = universal.Log(f"{path}.{worker}.json" if path else None)
    _state["log"] = log
    _state["un"] = universal.install_all(log, which)


def pytest_runtest_logreport(report):
    log = _state.get("log")
    if log is not None and report.when == "call":
        log.count("tests:" + report.outcome)


def pytest_sessionfinish(session, exitstatus):
    log = _state.get("log")
    if log is not None:
        log.dump()


def pytest_unconfigure(config):
    un = _state.pop("un", None)
    if un:
        un()
    log = _state.get("log")
    if log is not None:
        log.dump()

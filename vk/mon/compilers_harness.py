"""Shared harness of C06 (compiler soundness) and C07 (compiler completeness).  Owner: agent "compilers".

Drives the *real* compilers of /repo on generated problems and exposes, for the two checks:
    TARGETS                 the ten single compilers + factory pipelines (name -> Target)
    prepare(key, tier, res) -> Prepared | None   (problem built, compiled, both search spaces created; rejections counted)
    map_back_plan(prep, found_plan) -> (steps on the original | None, error string | None)   through the library's
                            plan.replace_action_instances(result.map_back_action_instance)
    labels(prep)            per compiled ground instance: the (action name, args) it maps back to, or None
    divergence(...)         diagnosis helper for mechanism strings (never used for verdicts)
    run_corpus(...)         thorough tier: the repository's example problems x every target that supports their kind
                            (prepare_example builds the same Prepared object from an example instead of a recipe)
    witness_base(prep), known_plans(prep, ex, res)
"""
from vk import env as _env
from vk.core import rng_for, h
from vk.gen import compilers as cgen
from vk.recipe import instantiate_problem
from vk.ref import seqsem
from vk.ref.evalx import Unsupported, const_value, domain_of, is_subtype
from vk.ref.search import Space

import unified_planning.environment as _upenv

BOUNDS = {
    "quick": dict(k=3, node_cap=3000, max_inst_o=14, max_inst_c=28, max_gfl=24, max_plans_c=40, max_plans_o=12, tries=8),
    "thorough": dict(k=4, node_cap=40000, max_inst_o=20, max_inst_c=44, max_gfl=32, max_plans_c=200, max_plans_o=40, tries=6),
}


class Target:
    def __init__(self, name, kinds, profile, stages=None, over=None, no_exists=False):
        self.name = name
        self.kinds = kinds  # CompilationKind names
        self.profile = profile
        self.stages = stages  # None for single compilers; list of short names for pipelines
        self.over = over or {}
        self.no_exists = no_exists

    @property
    def is_pipeline(self):
        return self.stages is not None


_SINGLE = [
    ("grounder", "GROUNDING"),
    ("cerm", "CONDITIONAL_EFFECTS_REMOVING"),
    ("dcrm", "DISJUNCTIVE_CONDITIONS_REMOVING"),
    ("ncrm", "NEGATIVE_CONDITIONS_REMOVING"),
    ("qurm", "QUANTIFIERS_REMOVING"),
    ("utfr", "USERTYPE_FLUENTS_REMOVING"),
    ("btrm", "BOUNDED_TYPES_REMOVING"),
    ("sirm", "STATE_INVARIANTS_REMOVING"),
    ("tcrm", "TRAJECTORY_CONSTRAINTS_REMOVING"),
    ("uinr", "UNDEFINED_INITIAL_NUMERIC_REMOVING"),
]
_KIND_OF = dict(_SINGLE)
_NOCONSTR = dict(invariants=0.0, traj=0.0)
_PIPES = [
    # (stages, profile, overrides, replace exists by forall (F25: the factory cannot build a pipeline with the quantifiers
    #  remover for a kind with existential conditions - that is C09/C32's finding, not a C06/C07 matter))
    (["qurm", "grounder"], "qurm", {}, True),
    (["cerm", "dcrm"], "dcrm", {}, False),
    (["dcrm", "ncrm"], "dcrm", {}, False),
    (["utfr", "cerm", "dcrm"], "utfr", _NOCONSTR, False),
    (["btrm", "grounder"], "btrm", dict(invariants=0.0), False),
    (["qurm", "dcrm", "ncrm"], "dcrm", {}, True),
]

TARGETS = {}
for _n, _k in _SINGLE:
    TARGETS[_n] = Target(_n, [_k], _n)
for _st, _pf, _ov, _ne in _PIPES:
    _name = "pipe:" + ">".join(_st)
    TARGETS[_name] = Target(_name, [_KIND_OF[s] for s in _st], _pf, stages=_st, over=_ov, no_exists=_ne)
TARGET_NAMES = list(TARGETS)


def _compiler_class(short):
    import importlib

    mod, cls = {
        "grounder": ("grounder", "Grounder"),
        "cerm": ("conditional_effects_remover", "ConditionalEffectsRemover"),
        "dcrm": ("disjunctive_conditions_remover", "DisjunctiveConditionsRemover"),
        "ncrm": ("negative_conditions_remover", "NegativeConditionsRemover"),
        "qurm": ("quantifiers_remover", "QuantifiersRemover"),
        "utfr": ("usertype_fluents_remover", "UsertypeFluentsRemover"),
        "btrm": ("bounded_types_remover", "BoundedTypesRemover"),
        "sirm": ("state_invariants_remover", "StateInvariantsRemover"),
        "tcrm": ("trajectory_constraints_remover", "TrajectoryConstraintsRemover"),
        "uinr": ("undefined_initial_numeric_remover", "UndefinedInitialNumericRemover"),
    }[short]
    return getattr(importlib.import_module("unified_planning.engines.compilers." + mod), cls)


def _replace_exists(x):
    if isinstance(x, list):
        if x and x[0] == "exists":
            return ["forall"] + [_replace_exists(y) for y in x[1:]]
        return [_replace_exists(y) for y in x]
    if isinstance(x, dict):
        return {k: _replace_exists(v) for k, v in x.items()}
    return x


class Prepared:
    pass


def target_of(key):
    """case key "C06:<seed>:<i>" -> target name (round robin so that every compiler gets the same share)."""
    i = int(key.split(":")[2])
    return TARGET_NAMES[i % len(TARGET_NAMES)]


def _documented_rejections():
    from unified_planning import exceptions as X

    return (
        X.UPUsageError,
        X.UPProblemDefinitionError,
        X.UPTypeError,
        X.UPUnsupportedProblemTypeError,
        X.UPConflictingEffectsException,
        X.UPExpressionDefinitionError,
        X.UPValueError,
        X.UPNoSuitableEngineAvailableException,
    )


def prepare(key, tier, res, prop, direct=None):
    """Generate + compile one case.  Returns Prepared or None (reason counted in res)."""
    from unified_planning.engines import CompilationKind
    from unified_planning.exceptions import UPException

    b = BOUNDS[tier]
    tname = target_of(key)
    tg = TARGETS[tname]
    rng = rng_for(key)
    REJ = _documented_rejections()
    pre = f"{tname}:"
    for attempt in range(b["tries"]):
        rec, feats, tags, spare = cgen.gen_recipe(rng, tg.profile, tg.over, tg.stages)
        if tg.no_exists:
            rec = _replace_exists(rec)
            spare = _replace_exists(spare)
        env = _env.fresh_env()
        # Several compilers (trajectory-constraints remover, disjunctive-conditions remover's fake goal, undefined-initial-
        # numeric remover, ...) create their auxiliary Fluents without an environment argument, i.e. in the process-global
        # environment, and then fail an assertion for a problem living in any other environment (a "compilers succeed" = C08
        # matter).  To reach their rewriting logic while keeping one fresh environment per case, the fresh environment is
        # installed as the global one for the duration of the case.
        _upenv.GLOBAL_ENVIRONMENT = env
        try:
            pb, ctx = instantiate_problem(rec, env)
        except UPException:
            res.count(pre + "gen_rejected_at_build")
            continue
        except AssertionError:
            # Problem.add_trajectory_constraint asserts on the shape of (simplified) constraints
            res.count(pre + "gen_rejected_at_build_assert")
            continue
        if any(tc.is_bool_constant() for tc in pb.trajectory_constraints):
            # `sometime(true)` & co. are simplified to a Boolean constant by Problem.add_trajectory_constraint; several
            # compilers then fail the shape assertion when re-adding it (C08 matter): not an interesting C06/C07 input
            res.count(pre + "gen_degenerate_trajectory_constraint")
            continue
        try:
            if len(seqsem.all_instances(pb)) > b["max_inst_o"] or len(seqsem.ground_fluents(pb)) > b["max_gfl"]:
                res.count(pre + "gen_too_large")
                continue
            sp_o = Space(pb, node_cap=b["node_cap"])
        except Unsupported:
            res.count(pre + "gen_unsupported_by_oracle")
            continue
        if sp_o.init_status == "dontcare" or (sp_o.init_status == "invalid" and rng.random() < 0.7):
            # an initial state the reference semantics cannot judge (or, mostly, one that is plainly invalid) gives no plans
            res.count(pre + "gen_initial_state_" + sp_o.init_status)
            continue
        try:
            gt = cgen.retarget_goal(rng, pb, ctx, rec, spare, sp_o, b["k"])
        except Unsupported:
            res.count(pre + "gen_unsupported_by_oracle")
            continue
        if gt in ("nothing-reachable", "init-not-ok", "no-literal") and rng.random() < 0.85:
            # no action is applicable initially / nothing changes: neither side has a plan worth judging (a few are kept)
            res.count(pre + "gen_nothing_reachable")
            continue
        # supported kind of the compiler(s): the library's own test
        cls = None if tg.is_pipeline else _compiler_class(tname)
        kinds = [CompilationKind[k] for k in tg.kinds]
        try:
            if tg.is_pipeline:
                env.factory.Compiler(problem_kind=pb.kind, compilation_kinds=kinds)
            elif not cls.supports(pb.kind):
                res.count(pre + "gen_outside_supported_kind")
                continue
        except REJ as e:
            res.count(pre + "gen_outside_supported_kind")
            continue
        except _env.INTERNAL_EXC as e:
            # F25/F26-style failures of the factory / resulting_problem_kind: C09/C32 material, not judged here
            res.count(pre + f"factory_raises:{type(e).__name__}")
            continue
        break
    else:
        res.count(pre + "no_case_generated")
        return None
    p = _new_prepared(key, tier, tg, rec, feats, sorted(tags), gt, pb, env, sp_o, b, ctx)
    if _too_many_conditional_effects(p):
        # the conditional-effects remover enumerates the powerset of an action's conditional effects (2^n variants)
        res.count(pre + "skipped_powerset_too_large")
        return None
    st = _compile(p, res)
    if st is None:
        return None
    if st == "rejected":
        return p
    # directed goal: aim at a state (projected on the fluents shared by both problems) that one side reaches and the other
    # does not.  Only the *choice of the goal* is directed; the verdict stays with the property's oracle.
    if direct and rng.random() < 0.75:
        try:
            goal = _directed_goal(p, rng, direct)
        except Unsupported:
            goal = None
        if goal is not None:
            old_goals = list(pb.goals)
            old_rec_goals = rec["goals"]
            rec["goals"] = [goal]
            pb.clear_goals()
            pb.add_goal(ctx.expr(goal))
            sp_o.forget_goals()
            ok_kind = True
            try:
                ok_kind = tg.is_pipeline or p.cls.supports(pb.kind)
            except _env.INTERNAL_EXC:
                ok_kind = False
            st = _compile(p, res) if ok_kind else None
            if st == "ok":
                res.count(pre + "directed_goal")
                p.goal_tag = "directed:" + direct
                return p
            # fall back to the undirected goal
            rec["goals"] = old_rec_goals
            pb.clear_goals()
            for g in old_goals:
                pb.add_goal(g)
            sp_o.forget_goals()
            st = _compile(p, res)
            if st is None:
                return None
    return p


def _new_prepared(key, tier, tg, rec, feats, tags, gt, pb, env, sp_o, b, ctx):
    from unified_planning.engines import CompilationKind

    p = Prepared()
    p.key, p.tier, p.target, p.rec, p.feats, p.tags, p.goal_tag = key, tier, tg, rec, feats, tags, gt
    p.pb, p.env, p.space_o, p.b, p.ctx = pb, env, sp_o, b, ctx
    p.cls = None if tg.is_pipeline else _compiler_class(tg.name)
    p.kinds = [CompilationKind[k] for k in tg.kinds]
    p.rejected = None
    p.result = None
    p.cprefix = ""  # prefix of the per-compiler counters ("corpus:" for the example-corpus part)
    p.example = None  # name of the example problem (corpus part), None for generated cases
    return p


MAX_COND_EFFECTS = 9


def _too_many_conditional_effects(p):
    """Deterministic size guard for targets containing the conditional-effects remover: is there an action with more than
    MAX_COND_EFFECTS conditional effects in the problem that stage receives?  (For a pipeline the earlier stages are
    compiled one by one to look at that intermediate problem; failures there are left to the real run.)"""
    from unified_planning.engines import CompilationKind

    stages = p.target.stages or [p.target.name]
    if "cerm" not in stages:
        return False
    pb = p.pb
    try:
        for short, kind in zip(stages, p.target.kinds):
            if short == "cerm":
                break
            pb = _compiler_class(short)().compile(pb, CompilationKind[kind]).problem
    except Exception:
        return False
    return any(len(getattr(a, "conditional_effects", [])) > MAX_COND_EFFECTS for a in pb.actions)


def _compile(p, res):
    """run the real compiler / factory pipeline on p.pb: 'ok' | 'rejected' | None (reason counted)"""
    from unified_planning.exceptions import UPException

    tg, pb, b = p.target, p.pb, p.b
    pre = p.cprefix + tg.name + ":"
    try:
        c = p.env.factory.Compiler(problem_kind=pb.kind, compilation_kinds=p.kinds) if tg.is_pipeline else p.cls()
    except (UPException,) + _env.INTERNAL_EXC as e:
        res.count(pre + f"factory_raises:{type(e).__name__}")
        return None
    try:
        p.result = c.compile(pb) if tg.is_pipeline else c.compile(pb, p.kinds[0])
    except UPException as e:
        # documented rejections and every other UPException subclass: "compilers succeed" is property C08, not C06/C07
        res.count(pre + f"compile_rejected:{type(e).__name__}")
        p.rejected = e
        p.result = None
        return "rejected"
    except _env.INTERNAL_EXC as e:
        # "compilers succeed" is property C08; C06/C07 only speak about results that exist
        res.count(pre + f"compile_raises_internal:{type(e).__name__}")
        return None
    p.rejected = None
    p.cp = p.result.problem
    if p.cp is None or p.result.map_back_action_instance is None:
        res.count(pre + "no_compiled_problem")
        return None
    try:
        insts = seqsem.all_instances(p.cp)
        if len(insts) > b["max_inst_c"] or len(seqsem.ground_fluents(p.cp)) > 3 * b["max_gfl"]:
            res.count(pre + "compiled_too_large")
            return None
        p.space_c = Space(p.cp, node_cap=b["node_cap"], instances=insts)
    except Unsupported:
        res.count(pre + "compiled_unsupported_by_oracle")
        return None
    return "ok"


def prepare_from_recipe(rec, target_name, key, tier, res):
    """Replay entry: rebuild a case from the *final recipe* stored in a witness (independent of the generators)."""
    b = BOUNDS[tier]
    tg = TARGETS[target_name]
    env = _env.fresh_env()
    _upenv.GLOBAL_ENVIRONMENT = env
    pb, ctx = instantiate_problem(rec, env)
    sp_o = Space(pb, node_cap=b["node_cap"])
    p = _new_prepared(key, tier, tg, rec, [], [], "replayed-recipe", pb, env, sp_o, b, ctx)
    st = _compile(p, res)
    return None if st is None else p


# ---- corpus part (thorough tier): the repository's own example problems --------------------------------------
# Work budgets are node / plan / path counts (never seconds).  k is set per example (see corpus_bound).
CORPUS_BOUNDS = dict(k=4, k_cap=60, node_cap=20000, max_inst_o=400, max_inst_c=800, max_gfl=400, max_plans_c=100, max_plans_o=40)
CORPUS_SHARDS = 16  # the examples are dealt round-robin over the thorough shards (spec["shard"] % CORPUS_SHARDS)


def witness_base(prep):
    """Common part of every C06/C07 witness; corpus witnesses carry {"example": name} instead of a recipe."""
    w = {"case_key": prep.key, "tier": prep.tier, "compiler": prep.target.name, "tags": prep.tags}
    if prep.example is not None:
        w["example"] = prep.example
    else:
        w["recipe"] = prep.rec
    return w


def _load_examples():
    """The example problems, built in a fresh environment that is installed as the global one (same reason as in prepare)."""
    from unified_planning.test.examples import get_example_problems

    env = _env.fresh_env()
    _upenv.GLOBAL_ENVIRONMENT = env
    return env, get_example_problems()


def _corpus_skip_reason(pb):
    """Why the reference sequential semantics (seqsem / traj / search) does not cover this problem, or None."""
    from unified_planning.model import InstantaneousAction

    if any(not isinstance(a, InstantaneousAction) for a in pb.actions):
        return "temporal_actions"
    if getattr(pb, "natural_transitions", None):
        return "processes_or_events"
    if pb.timed_effects or pb.timed_goals:
        return "timed_effects_or_goals"
    if any(a.simulated_effect is not None for a in pb.actions):
        return "simulated_effects"
    return None


def known_sequential_plans(pb, ex):
    """[(steps on pb | None, error | None)] for the SequentialPlans among the example's valid plans."""
    from unified_planning.plans import SequentialPlan

    out = []
    for pl in ex.valid_plans:
        if not isinstance(pl, SequentialPlan):
            continue
        try:
            out.append((_steps_of(pb, pl.actions), None))
        except ValueError as e:
            out.append((None, str(e)))
    return out


def corpus_bound(known):
    """Length bound of the plan searches for one example: the length of its shortest known valid plan when there is one
    (so that the compiled search can reach real plans), at least CORPUS_BOUNDS["k"] (the thorough bound of the generated part), at most CORPUS_BOUNDS['k_cap']."""
    lens = [len(st) for st, err in known if st is not None]
    want = min(lens) if lens else CORPUS_BOUNDS["k"]
    return max(CORPUS_BOUNDS["k"], min(want, CORPUS_BOUNDS["k_cap"])), want > CORPUS_BOUNDS["k_cap"]


def known_plans(prep, ex, res):
    """The example's known valid sequential plans as FoundPlans of prep.space_o, each first confirmed by the reference
    semantics (every step applicable, goal and trajectory constraints true); the others are counted and left out."""
    from vk.ref.search import FoundPlan

    sp = prep.space_o
    pre = prep.cprefix
    index = {(a.name, args): i for i, (a, args) in enumerate(sp.instances)}
    out = []
    for steps, err in known_sequential_plans(prep.pb, ex):
        res.count(pre + "known_plans")
        if steps is None:
            res.count(pre + "known_plans_skipped:not_convertible")
            continue
        if sp.init_status != "ok":
            res.count(pre + "known_plans_skipped:initial_state_" + sp.init_status)
            continue
        idx, sids, bad = [], [sp.s0], None
        for a, args in steps:
            i = index.get((a.name, tuple(args)))
            if i is None:
                bad = "step_is_no_ground_instance"
                break
            st, nid, _ = sp.step(sids[-1], i)
            if st != "ok":
                bad = "step_" + str(st)
                break
            idx.append(i)
            sids.append(nid)
        if bad is None:
            e = sp.end_ok(sids)
            if e is not True:
                bad = "goal_or_trajectory_" + ("dontcare" if e is None else "false")
        if bad is not None:
            res.count(pre + "known_plans_skipped:not_confirmed_by_reference:" + bad)
            continue
        fp = FoundPlan(sp, idx, sids)
        if any(fp.idx == o.idx for o in out):
            res.count(pre + "known_plans_skipped:duplicate")
            continue
        res.count(pre + "known_plans_confirmed")
        out.append(fp)
    return out


def prepare_example(name, pb, env, sp_o, tname, res, prop, k):
    """Compile one example with one target: Prepared (result None when rejected) or None (reason counted)."""
    from unified_planning.engines import CompilationKind

    tg = TARGETS[tname]
    pre = "corpus:" + tname + ":"
    REJ = _documented_rejections()
    try:
        if tg.is_pipeline:
            env.factory.Compiler(problem_kind=pb.kind, compilation_kinds=[CompilationKind[x] for x in tg.kinds])
        elif not _compiler_class(tname).supports(pb.kind):
            res.count(pre + "unsupported_kind")
            return None
    except REJ:
        res.count(pre + "unsupported_kind")
        return None
    except _env.INTERNAL_EXC as e:
        res.count(pre + f"factory_raises:{type(e).__name__}")  # C09/C32 material (F25/F26), as in prepare
        return None
    b = dict(CORPUS_BOUNDS, k=k)
    p = _new_prepared(f"{prop}:example:{name}:{tname}", "thorough", tg, {"example": name}, [], [], "example", pb, env, sp_o, b, None)
    p.cprefix = "corpus:"
    p.example = name
    if _too_many_conditional_effects(p):
        res.count(pre + "skipped_powerset_too_large")
        return None
    st = _compile(p, res)
    return None if st is None else p


def run_corpus(res, prop, judge_fn, shard=0, nshards=1, only=None):
    """Corpus part of C06/C07: every example problem of class Problem inside the reference semantics and the size caps x
    every target that supports its kind -> judge_fn(prep, example, res).  `only` = (example name, target name) for replay.
    Each example is rebuilt in its own fresh environment (so that a replay sees exactly what the full run saw)."""
    from unified_planning.model import Problem

    b = CORPUS_BOUNDS
    res.count("corpus:scheduled")
    _, exs = _load_examples()
    names = sorted(n for n, ex in exs.items() if type(ex.problem) is Problem)
    for j, name in enumerate(names):
        if only is not None:
            if name != only[0]:
                continue
        elif j % nshards != shard % nshards:
            continue
        res.count("corpus:examples")
        env, exs = _load_examples()
        ex = exs[name]
        pb = ex.problem
        why = _corpus_skip_reason(pb)
        if why is None:
            try:
                if len(seqsem.all_instances(pb)) > b["max_inst_o"] or len(seqsem.ground_fluents(pb)) > b["max_gfl"]:
                    why = "too_large"
                else:
                    sp_o = Space(pb, node_cap=b["node_cap"])
                    known = known_sequential_plans(pb, ex)
            except Unsupported:
                why = "unsupported_by_oracle"
        if why is not None:
            res.count("corpus:examples_skipped:" + why)
            continue
        res.count("corpus:examples_tried")
        k, below = corpus_bound(known)
        if below:
            res.count("corpus:examples_bound_below_known_plan_length")
        for tname in TARGET_NAMES:
            if only is not None and tname != only[1]:
                continue
            prep = prepare_example(name, pb, env, sp_o, tname, res, prop, k)
            if prep is None:
                continue
            res.count("corpus:pairs_prepared")
            try:
                judge_fn(prep, ex, res)
            except Unsupported:
                res.count(f"corpus:{tname}:unsupported_by_oracle")


def corpus_thresholds(c, judged_keys, need_examples=30, need_pairs=300, need_judged=300, need_per_compiler=10):
    """Reasons making a run inconclusive on account of the corpus part (only when it was scheduled, i.e. thorough tier).
    judged_keys: the per-compiler counters that count one judged plan each.  (Observed on the unchanged tree: 52 examples,
    ~650 compiled pairs, 2911 (C06) / 654 (C07) plans judged, >= 29 per single compiler.)"""
    if not c.get("corpus:scheduled"):
        return []

    def judged_of(tn):
        return sum(c.get(f"corpus:{tn}:{k}", 0) for k in judged_keys)

    out = []
    if c.get("corpus:examples_tried", 0) < need_examples:
        out.append(f"corpus part: fewer than {need_examples} example problems inside the reference semantics and the size caps ({c.get('corpus:examples_tried', 0)})")
    pairs = sum(c.get(f"corpus:{tn}:compiled", 0) for tn in TARGET_NAMES)
    if pairs < need_pairs:
        out.append(f"corpus part: fewer than {need_pairs} (example, compiler) pairs compiled ({pairs})")
    judged = sum(judged_of(tn) for tn in TARGET_NAMES)
    if judged < need_judged:
        out.append(f"corpus part: fewer than {need_judged} plans judged ({judged})")
    for tn in TARGET_NAMES:
        if TARGETS[tn].is_pipeline:
            continue
        n = judged_of(tn)
        if n < need_per_compiler:
            out.append(f"corpus part: fewer than {need_per_compiler} plans judged for {tn} ({n})")
    return out


def corpus_coverage(c):
    return {k[len("corpus:") :]: v for k, v in sorted(c.items()) if k.startswith("corpus:")}


def _reach(space, depth):
    seen = {space.s0}
    layer = [space.s0]
    for _ in range(depth):
        nxt = []
        for sid in layer:
            for i in range(len(space.instances)):
                st, nid, _ = space.step(sid, i)
                if st == "ok" and nid not in seen:
                    seen.add(nid)
                    nxt.append(nid)
        layer = nxt
        if not layer:
            break
    return sorted(seen)


def _directed_goal(p, rng, direct):
    """goal recipe characterising a shared-fluent valuation reached (within the bound) on one side only, or None."""
    if p.space_o.init_status != "ok" or p.space_c.init_status != "ok":
        return None
    fo = {f.name: f for f in p.pb.fluents}
    shared = []
    for f, args in seqsem.ground_fluents(p.cp):
        g = fo.get(f.name)
        if g is not None and g.type == f.type and [x.type for x in g.signature] == [x.type for x in f.signature]:
            if all(isinstance(a, str) for a in args):
                shared.append((f.name, args))
    if not shared:
        return None
    k = p.b["k"]
    has_none = any(l is None for l in labels(p))
    ro = _reach(p.space_o, k)
    rc = _reach(p.space_c, k + (1 if (has_none and direct == "c07") else 0))
    if p.space_o.capped or p.space_c.capped:
        return None

    def sig(s):
        return tuple(str(s.get(key, None)) if key in s else None for key in shared)

    so = {sig(p.space_o.state(x)): x for x in reversed(ro)}
    sc = {sig(p.space_c.state(x)): x for x in reversed(rc)}
    if direct == "c06":
        only = [(g, sc[g], p.space_c) for g in sc if g not in so]
    else:
        only = [(g, so[g], p.space_o) for g in so if g not in sc]
    only = [o for o in only if None not in o[0] and o[1] != o[2].s0]
    if not only:
        return None
    g, sid, space = rng.choice(sorted(only, key=lambda o: o[0]))
    s = space.state(sid)
    lits = []
    for name, args in shared:
        v = s[(name, args)]
        fe = ["f", name] + [["o", a] for a in args]
        if isinstance(v, bool):
            lits.append(fe if v else ["not", fe])
        elif isinstance(v, str):
            lits.append(["eq", fe, ["o", v]])
        else:
            lits.append(["eq", fe, ["r", str(v)]])
    return lits[0] if len(lits) == 1 else ["and"] + lits


def syntactic_undefined_numeric_read(pb, s, a, args):
    """Does the ground action syntactically mention (preconditions, effect conditions, effect values, increase/decrease
    targets) a numeric ground fluent that is undefined in s?  (The undefined-initial-numeric remover documents that it
    requires definedness wherever a fluent is *used*, evaluated or not.)"""
    from vk.ref.evalx import Interp, ev

    I = Interp(pb, s, {prm.name: v for prm, v in zip(a.parameters, args)})
    I.reads = set()
    for c in a.preconditions:
        ev(c, I, "strict")
    for eff in a.effects:
        for binding in seqsem.expand_effect(pb, eff):
            J = I.with_vars(binding) if binding else I
            ev(eff.condition, J, "strict")
            ev(eff.value, J, "strict")
            if eff.is_increase() or eff.is_decrease():
                ev(eff.fluent, J, "strict")
    for key in I.reads:
        if key not in s:
            t = pb.fluent(key[0]).type
            if t.is_int_type() or t.is_real_type():
                return True
    return False


# ---- map back ---------------------------------------------------------------------------------------------
def _ai(problem, action, args):
    from unified_planning.plans import ActionInstance

    return ActionInstance(action, seqsem.param_exprs(problem, action, args))


def _steps_of(pb, ais):
    """library ActionInstances -> reference steps on the original problem; raises ValueError(reason) when the instance
    is not an instance of an action of pb."""
    steps = []
    for ai in ais:
        a = ai.action
        if not pb.has_action(a.name) or pb.action(a.name) != a:
            raise ValueError(f"maps to action '{a.name}' that is not an action of the original problem")
        if len(ai.actual_parameters) != len(a.parameters):
            raise ValueError(f"maps to '{a.name}' with {len(ai.actual_parameters)} arguments for {len(a.parameters)} parameters")
        args = []
        for prm, v in zip(a.parameters, ai.actual_parameters):
            try:
                pv = const_value(v)
            except Unsupported:
                raise ValueError(f"maps to '{a.name}' with a non-constant argument {v}")
            dom = domain_of(pb, prm.type)
            if dom is not None and pv not in dom:
                raise ValueError(f"maps to '{a.name}' with argument {pv} outside the domain of parameter {prm.name}")
            args.append(pv)
        steps.append((pb.action(a.name), tuple(args)))
    return steps


def map_back_plan(prep, found):
    """The library's plan-level map back (KIT pitfall: plan_back_conversion may be None)."""
    from unified_planning.plans import SequentialPlan

    plan = SequentialPlan([_ai(prep.cp, a, args) for a, args in found.steps], prep.cp.environment)
    try:
        back = plan.replace_action_instances(prep.result.map_back_action_instance)
    except Exception as e:  # the map-back of a valid compiled plan must produce a plan
        return None, f"map-back raises {type(e).__name__}: {e}"
    try:
        return _steps_of(prep.pb, back.actions), None
    except ValueError as e:
        return None, str(e)


def labels(prep):
    """For each compiled ground instance: (orig action name, args) or None (compiler-introduced step) or ("?", reason)."""
    out = []
    for a, args in prep.space_c.instances:
        try:
            r = prep.result.map_back_action_instance(_ai(prep.cp, a, args))
        except Exception as e:
            out.append(("?", f"map-back raises {type(e).__name__}"))
            continue
        if r is None:
            out.append(None)
            continue
        try:
            (st,) = _steps_of(prep.pb, [r])
            out.append((st[0].name, st[1]))
        except ValueError as e:
            out.append(("?", str(e)))
    return out


def step_names(steps):
    return [[a.name, list(args)] for a, args in steps]


# ---- diagnosis (mechanism strings only) ---------------------------------------------------------------------
def effect_kinds_on(action, fluent_name):
    ks = set()
    for e in action.effects:
        if e.fluent.fluent().name == fluent_name:
            k = "assign" if e.is_assignment() else ("increase" if e.is_increase() else "decrease")
            if e.fluent.fluent().type.is_bool_type():
                k += "-bool" + ("-fluent-valued" if not e.value.is_constant() else "")
            if e.is_conditional():
                k = "conditional-" + k
            if e.forall:
                k = "forall-" + k
            ks.add(k)
    return sorted(ks)


def divergence(prep, found, lab):
    """First shared ground fluent on which the compiled trace and the mapped-back trace (as far as it executes) differ:
    returns (original step index, fluent name, effect kinds of the original action on it) or None."""
    pb = prep.pb
    s = seqsem.initial_state(pb)
    shared = {f.name for f in pb.fluents} & {f.name for f in prep.cp.fluents}
    j = 0
    for n, i in enumerate(found.idx):
        l = lab[i]
        if l is None:
            continue
        if l[0] == "?":
            return None
        a = pb.action(l[0])
        r = seqsem.succ(pb, s, a, l[1], check_invariants=False)
        if r.status != seqsem.OKAY and r.state is None:
            # apply what can be applied: stop the comparison here
            return None
        s = r.state
        cs = found.states[n + 1]
        for key in sorted(set(k for k in s if k[0] in shared) | set(k for k in cs if k[0] in shared), key=str):
            if key in s and key in cs and s[key] != cs[key]:
                return (j, key[0], effect_kinds_on(a, key[0]))
        j += 1
    return None


def rewritten_on_path(prep, found, lab):
    """Does the compiled plan use an action that the compiler rewrote (structurally different from what it maps to)?"""
    for i in found.idx:
        l = lab[i]
        if l is None:
            return True
        a = prep.space_c.instances[i][0]
        if l[0] == "?" or a != prep.pb.action(l[0]):
            return True
    return False

"""Boundary helpers shared by the I/O round-trip checks C18 / C19 / C21 (owner: io-roundtrip).

Pass-through wrappers around the *real* writers / readers of /repo: they only record what was called, with which outcome
(result / exception / warnings), and never change arguments or results."""
import contextlib
import warnings

from vk import env as _env  # noqa: F401

import unified_planning as up
import unified_planning.environment as _upenv
from unified_planning.exceptions import (
    UPException,
    UPConflictingEffectsException,
    UPProblemDefinitionError,
    UPTypeError,
    UPUnsupportedProblemTypeError,
    UPUsageError,
    UPExpressionDefinitionError,
)

DOCUMENTED_REJECTIONS = (
    UPProblemDefinitionError,
    UPTypeError,
    UPUnsupportedProblemTypeError,
    UPUsageError,
    UPConflictingEffectsException,
    UPExpressionDefinitionError,
)


# a reader may refuse a text with these (documented) classes; anything else escaping a reader on a writer's output is judged
READER_REJECTIONS = (UPUnsupportedProblemTypeError, UPConflictingEffectsException)


@contextlib.contextmanager
def default_environment(e):
    """Temporarily make `e` the library's default (global) environment, so that a reader used *without* an explicit
    environment argument works in an isolated environment (one per case)."""
    old = _upenv.GLOBAL_ENVIRONMENT
    _upenv.GLOBAL_ENVIRONMENT = e
    try:
        yield e
    finally:
        _upenv.GLOBAL_ENVIRONMENT = old


class Outcome:
    """Result of one monitored call: .value or .exc (+ recorded warnings)."""

    def __init__(self, value=None, exc=None, warns=()):
        self.value, self.exc, self.warns = value, exc, list(warns)

    @property
    def ok(self):
        return self.exc is None

    def inexact(self):
        return any("cannot exactly represent" in str(w.message) for w in self.warns)


def call(fn, *a, **kw):
    with warnings.catch_warnings(record=True) as ws:
        warnings.simplefilter("always")
        try:
            return Outcome(fn(*a, **kw), None, ws)
        except RecursionError as e:  # keep the harness alive, report as internal
            return Outcome(None, e, ws)
        except Exception as e:  # noqa
            return Outcome(None, e, ws)


def exc_class(e):
    """Narrow, witness-derived class of an exception (type + stable part of the message)."""
    import re

    msg = str(e)
    if hasattr(e, "msg") and hasattr(e, "loc") and isinstance(getattr(e, "msg"), str):  # pyparsing: keep what was expected
        return f"{type(e).__name__}:{e.msg[:48]}"
    msg = re.sub(r"line:? \d+, col:? \d+( to line:? \d+, col:? \d+)?", "<pos>", msg)
    msg = re.sub(r"\d+", "N", msg)
    msg = re.sub(r"Found expression (true|false) in", "Found expression <bool> in", msg)
    msg = re.sub(r"ExpressionManager\.\w+\(\)", "ExpressionManager.<op>()", msg)
    msg = re.sub(r"'[^']*'|\"[^\"]*\"", "'..'", msg)
    return f"{type(e).__name__}:{msg[:48].strip()}"


def passes_through(e, filename):
    """True iff the exception's traceback has a frame of a file whose path ends with `filename`."""
    tb = e.__traceback__
    while tb is not None:
        if tb.tb_frame.f_code.co_filename.endswith(filename):
            return True
        tb = tb.tb_next
    return False


def origin(e, filename):
    """Name of the innermost function of `filename` on the exception's traceback that is not an expression-walker callback."""
    tb = e.__traceback__
    name = "?"
    while tb is not None:
        co = tb.tb_frame.f_code
        if co.co_filename.endswith(filename) and not co.co_name.startswith("walk_") and co.co_name not in ("convert", "do", "<lambda>"):
            name = co.co_name
        tb = tb.tb_next
    return name


# ---- PDDL ----------------------------------------------------------------------------------------------------------------
def write_pddl(problem, rewrite_bool_assignments=False, empty_preconditions=False):
    """-> (writer, Outcome with value (domain_text, problem_text))."""
    from unified_planning.io import PDDLWriter

    holder = {}

    def do():
        w = PDDLWriter(problem, rewrite_bool_assignments=rewrite_bool_assignments, empty_preconditions=empty_preconditions)
        holder["w"] = w
        return (w.get_domain(), w.get_problem())

    out = call(do)
    return holder.get("w"), out


def ai_preparse(domain_text, problem_text):
    """Outcome of the third-party `pddl` package's own parsers (what PDDLReader(force_ai_planning_reader=True) calls first).
    A failure here is a limitation of that package, not of unified-planning's converter."""
    from pddl.parser.domain import DomainParser
    from pddl.parser.problem import ProblemParser

    return call(lambda: (DomainParser()(domain_text), ProblemParser()(problem_text)))


def read_pddl(which, domain_text, problem_text, env, explicit_env):
    """which: 'up' | 'ai'. explicit_env: pass `environment=env` to PDDLReader; otherwise make env the default environment
    for the duration of the call. -> (reader, Outcome)."""
    from unified_planning.io import PDDLReader

    kw = dict(force_up_pddl_reader=True) if which == "up" else dict(force_ai_planning_reader=True)
    holder = {}

    def do():
        if explicit_env:
            r = PDDLReader(environment=env, **kw)
            holder["r"] = r
            return r.parse_problem_string(domain_text, problem_text)
        with default_environment(env):
            r = PDDLReader(**kw)
            holder["r"] = r
            return r.parse_problem_string(domain_text, problem_text)

    out = call(do)
    return holder.get("r"), out


# ---- ANML ----------------------------------------------------------------------------------------------------------------
def write_anml(problem):
    """-> (names_mapping captured from the writer's own _get_anml_name calls, Outcome with the text)."""
    import unified_planning.io.anml_writer as aw

    captured = {}
    orig = aw._get_anml_name

    def spy(item, names_mapping):
        captured["map"] = names_mapping
        return orig(item, names_mapping)

    aw._get_anml_name = spy
    try:
        out = call(lambda: aw.ANMLWriter(problem).get_problem())
    finally:
        aw._get_anml_name = orig
    return captured.get("map", {}), out


def read_anml(text, env, explicit_env, timeout=None):
    from unified_planning.io import ANMLReader

    def do():
        if explicit_env:
            return ANMLReader(env).parse_problem_string(text, "reread")
        with default_environment(env):
            return ANMLReader().parse_problem_string(text, "reread")

    if timeout:
        return call_with_timeout(timeout, do)
    return call(do)


# ---- recipe instantiation (works around vk.recipe._add_effect, which calls Problem.add_effect for timed *assign* effects;
# the public name on a Problem is add_timed_effect) -----------------------------------------------------------------------
def instantiate(rec, env):
    from vk.recipe import instantiate_problem, timing

    tes = rec.get("timed_effects") or []
    r = dict(rec)
    r["timed_effects"] = []
    pb, ctx = instantiate_problem(r, env)
    for t, eff in tes:
        fl, val = ctx.expr(eff["fluent"]), ctx.expr(eff["value"])
        cond = ctx.expr(eff["cond"]) if eff.get("cond") is not None else True
        fa = tuple(ctx.var(n, ty) for n, ty in eff.get("forall", []))
        kind = eff.get("kind", "assign")
        if kind == "assign":
            pb.add_timed_effect(timing(t), fl, val, cond, fa)
        elif kind == "inc":
            pb.add_increase_effect(timing(t), fl, val, cond, fa)
        else:
            pb.add_decrease_effect(timing(t), fl, val, cond, fa)
    return pb, ctx


# ---- PDDL text features (to key known limitations of the third-party `pddl` parser by construct) ------------------------------
def sexpr(text):
    """Tiny s-expression reader (comments stripped)."""
    import re

    text = re.sub(r";[^\n]*", "", text)
    toks = re.findall(r"\(|\)|[^\s()]+", text)
    stack = [[]]
    for t in toks:
        if t == "(":
            stack.append([])
        elif t == ")":
            x = stack.pop()
            stack[-1].append(x)
        else:
            t = t.lower()
            try:  # numbers by value: the third-party parser compares 3 and 3.0 as equal
                from fractions import Fraction

                t = "#" + str(Fraction(t))
            except (ValueError, ZeroDivisionError):
                pass
            stack[-1].append(t)
    return stack[0]


def pddl_text_tags(*texts):
    """Constructs of the written text that the third-party parser is known to mis-handle:
    dup-operands  (+ x x) / (* x x)  - its Plus/Times drop repeated operands;
    nested-div / nested-minus        - its Divide/Minus flatten nested occurrences of the same operator;
    dup-effects   (and (increase f 1) (increase f 1)) - its And drops repeated operands, also in effect lists;
    empty-precondition `:precondition ()` - it reads the empty precondition as the empty disjunction (false)."""
    tags = set()

    def flat(x, op):
        out = []
        for a in x[1:]:
            if isinstance(a, list) and a and a[0] == op:
                out.extend(flat(a, op))
            else:
                out.append(a)
        return out

    def unwrap(x):
        if not isinstance(x, list):
            return x
        x = [unwrap(a) for a in x]
        if len(x) == 2 and x[0] in ("and", "or"):
            return x[1]
        return x

    def walk(x):
        if not isinstance(x, list):
            return
        if x and isinstance(x[0], str):
            if x[0] in ("+", "*") and len(x) >= 3:
                ops = [repr(a) for a in flat(x, x[0])]
                if len(set(ops)) != len(ops):
                    tags.add("dup-operands")
            for i, a in enumerate(x[:-1]):
                if a == ":precondition" and x[i + 1] == []:
                    tags.add("empty-precondition")
            if x[0] == "and":
                # (the parser's And / Or also collapse unary occurrences: (when c (and e)) and (when c e) are the same operand)
                effs = [repr(unwrap(a)) for a in x[1:] if isinstance(a, list) and ("increase" in repr(a) or "decrease" in repr(a))]
                if len(set(effs)) != len(effs):
                    tags.add("dup-effects")
            if x[0] in ("/", "-") and len(x) == 3:
                if any(isinstance(a, list) and a and a[0] == x[0] and len(a) == 3 for a in x[1:]):
                    tags.add("nested-div" if x[0] == "/" else "nested-minus")
        for a in x:
            walk(a)

    for t in texts:
        walk(sexpr(t))
    return sorted(tags)


TAG_PRIORITY = ["empty-precondition", "nested-div", "nested-minus", "dup-effects", "dup-operands"]

# words that the UP PDDL reader parses as trajectory-constraint operators wherever they head a list (io/up_pddl_reader.py,
# _parse_exp); the writer only mangles them when the problem has trajectory constraints (io/pddl_writer.py, __init__)
PDDL3_WORDS = {"always", "sometime", "sometime-before", "sometime-after", "at-most-once"}


def pddl_c38_keyword_names(problem, writer, domain_text, problem_text):
    """Names chosen by the PDDL writer that property C38's lexical oracle (vk.ref.names: PDDL 3.1 BNF words of the language
    fragments the two files use) classifies as reserved words, e.g. a predicate written as `assign` (missing from the writer's
    keyword table). That is C38's subject and reported there; a text with such a name is ambiguous PDDL, C18 does not judge it."""
    from vk.ref import names as N

    reserved = N.pddl_reserved(domain_text, problem_text)
    bad = []

    def look(item, ns):
        try:
            n = writer.get_pddl_name(item)
        except UPException:
            return
        if N.pddl_keyword_violation(n, ns, reserved):
            bad.append(n)

    for t in problem.user_types:
        look(t, "type")
    for it in list(problem.fluents) + list(problem.actions) + list(problem.all_objects):
        look(it, "symbol")
    for a in problem.actions:
        for prm in a.parameters:
            look(prm, "variable")
    return sorted(bad)


def inexact_binary(value_text):
    """True iff the text is a rational whose denominator has a large power-of-two factor: the footprint of a decimal literal that went
    through a binary float (0.4 -> 3602879701896397/9007199254740992)."""
    from fractions import Fraction

    try:
        d = Fraction(value_text).denominator
    except (ValueError, ZeroDivisionError):
        return False
    return d % 2**30 == 0  # (the value may have been divided / multiplied by other constants since)


def pddl3_word_names(problem, writer):
    """Names (as written) of fluents / actions / objects that are PDDL3 modal-operator words."""
    out = []
    for it in list(problem.fluents) + list(problem.actions) + list(problem.all_objects):
        try:
            n = writer.get_pddl_name(it)
        except UPException:
            continue
        if n.lower() in PDDL3_WORDS:
            out.append(n)
    return sorted(out)


# root causes in the third-party package: `:precondition ()` -> Or()  (pddl/parser/domain.py, emptyor_pregd), and ONE function,
# pddl/logic/base.py _simplify_monotone_op_operands (metaclass of And / Or / Plus / Times / Minus / Divide), which drops
# operands already seen and flattens nested operands of the same class (the four other tags)
TAG_ROOT_CAUSE = {
    "empty-precondition": "empty-precondition",
    "nested-div": "operand-dedup-flatten",
    "nested-minus": "operand-dedup-flatten",
    "dup-effects": "operand-dedup-flatten",
    "dup-operands": "operand-dedup-flatten",
}


def primary_tag(tags):
    """One root-cause name per text (bounded set of mechanism strings): that of the first tag present in TAG_PRIORITY."""
    for t in TAG_PRIORITY:
        if t in tags:
            return TAG_ROOT_CAUSE[t]
    return None


# ---- per-call watchdog (pyparsing's infix_notation is exponential in the nesting depth of parentheses) -----------------------
class CallTimeout(Exception):
    pass


def call_with_timeout(seconds, fn, *a, **kw):
    """Like call(), but gives up after `seconds` of CPU time (main thread only). A timeout is never a verdict."""
    import signal
    import threading

    if threading.current_thread() is not threading.main_thread():
        return call(fn, *a, **kw)

    def handler(signum, frame):
        raise CallTimeout()

    # CPU time of this process, not wall time: the outcome must not depend on how loaded the machine is
    old = signal.signal(signal.SIGPROF, handler)
    signal.setitimer(signal.ITIMER_PROF, seconds)
    try:
        return call(fn, *a, **kw)
    finally:
        signal.setitimer(signal.ITIMER_PROF, 0)
        signal.signal(signal.SIGPROF, old)


# ---- ANML: features of the written problem that key known writer/reader limitations ----------------------------------------------
# one mechanism tag per root cause (sub-tags stay visible as counters):
#   iff-compound-operand    ANMLWriter prints Iff as `==`, the grammar's relations level only takes arithmetic operands
#   type-bound-syntax       numeric type bounds the writer prints (`-2`, `7/2`, `(-infinity, 4.0]` for reals) but the grammar's
#                           primitive_type does not accept           [sub-tags negative-bound, fractional-real-bound, half-bounded-real]
#   keyword-as-fluent-ref   the grammar's fluent_ref takes forall / exists / not for a fluent name and commits (`-`), so a
#                           quantifier followed by an operator inside a parenthesis, `when (forall ...)`, `when (not (a and b))`
#                           abort the parse     [sub-tags quantifier-first-operand, quantified-effect-condition,
#                           negated-compound-effect-condition]
ANML_ROOT_CAUSE = {
    "iff-compound-operand": "iff-compound-operand",
    "negative-bound": "type-bound-syntax",
    "fractional-real-bound": "type-bound-syntax",
    "half-bounded-real": "type-bound-syntax",
    "quantified-effect-condition": "keyword-as-fluent-ref",
    "negated-compound-effect-condition": "keyword-as-fluent-ref",
    "quantifier-first-operand": "keyword-as-fluent-ref",
}
ANML_TAG_PRIORITY = ["iff-compound-operand", "type-bound-syntax", "keyword-as-fluent-ref"]


def anml_invalid_identifiers(names):
    """Identifiers chosen by the ANML writer that are not ANML identifiers (letter|_)(letter|digit|_)* or are ANML keywords:
    property C38's subject (io/anml_writer.py `_is_valid_anml_name` is not anchored). C19 does not judge such problems."""
    from vk.ref import names as N

    bad = []
    for item, n in names.items():
        if hasattr(item, "is_user_type") and not item.is_user_type():
            continue  # int / real / bool types: the "name" is the type expression
        if not N.anml_valid_name(n) or N.anml_is_keyword(n):
            bad.append(n)
    return sorted(bad)


def anml_problem_tags(problem, names):
    import re
    from unified_planning.model.operators import OperatorKind as OK

    tags = set()
    tps = [f.type for f in problem.fluents] + [p.type for f in problem.fluents for p in f.signature]
    for t in tps:
        if t.is_int_type() or t.is_real_type():
            lb, ub = t.lower_bound, t.upper_bound
            if (lb is not None and lb < 0) or (ub is not None and ub < 0):
                tags.add("negative-bound")
            if t.is_real_type():
                if (lb is None) != (ub is None):
                    tags.add("half-bounded-real")
                if any(b is not None and b.denominator != 1 for b in (lb, ub)):
                    tags.add("fractional-real-bound")
    exprs = []
    for a in problem.actions:
        if hasattr(a, "preconditions"):
            exprs += list(a.preconditions)
            effs = list(a.effects)
        else:
            for cl in a.conditions.values():
                exprs += list(cl)
            effs = [e for el in a.effects.values() for e in el]
        for e in effs:
            exprs += [e.condition, e.value]
            if e.condition.node_type in (OK.EXISTS, OK.FORALL):
                tags.add("quantified-effect-condition")
            c0 = e.condition
            if c0.node_type == OK.NOT and c0.arg(0).args and c0.arg(0).node_type != OK.FLUENT_EXP:
                tags.add("negated-compound-effect-condition")
    exprs += list(problem.goals)
    for gl in problem.timed_goals.values():
        exprs += list(gl)
    stack = [(e, False) for e in exprs]
    while stack:
        e, inq = stack.pop()
        nt = e.node_type
        q = nt in (OK.EXISTS, OK.FORALL)
        if nt in (OK.AND, OK.OR, OK.IMPLIES) and e.args and e.arg(0).node_type in (OK.EXISTS, OK.FORALL):
            tags.add("quantifier-first-operand")
        if nt == OK.IFF and any(a.args and a.node_type != OK.FLUENT_EXP for a in e.args):
            tags.add("iff-compound-operand")
        for a in e.args:
            stack.append((a, inq or q))
    return sorted(tags)


def anml_failure_tag(ex, tags):
    """Root-cause tag of a reader failure: the text line the parser stopped at decides where it can (a fluent / constant
    declaration line -> the type bounds; a line with a quantifier or `when (not (` -> the keyword commitment); otherwise the
    first root cause of the problem's tags in ANML_TAG_PRIORITY."""
    roots = {ANML_ROOT_CAUSE.get(t, t) for t in tags}
    line = str(getattr(ex, "line", "") or "").strip()
    if "type-bound-syntax" in roots and line.startswith(("fluent ", "constant ")):
        return "type-bound-syntax"
    if "iff-compound-operand" in roots and "==" in line and "when (" not in line:
        # `(g == (forall(..) {..}))`, `(g == (not h))`: the relation level of the grammar stops at the Boolean operand of `==`,
        # whatever that operand is (a quantifier there is not the keyword commitment: that one is about `when (forall` / a
        # quantifier as first operand of and / or / implies)
        return "iff-compound-operand"
    if "keyword-as-fluent-ref" in roots and ("forall(" in line or "exists(" in line or "when (not (" in line):
        return "keyword-as-fluent-ref"
    return anml_primary_tag(tags)


def anml_primary_tag(tags):
    """Root-cause tag naming the mechanism (first of ANML_TAG_PRIORITY among the root causes of the sub-tags)."""
    roots = {ANML_ROOT_CAUSE.get(t, t) for t in tags}
    for t in ANML_TAG_PRIORITY:
        if t in roots:
            return t
    return None

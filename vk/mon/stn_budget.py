"""Deterministic work budget for DeltaSimpleTemporalNetwork.add (monitor of C25; owner: stn-htn-kind).

The incremental Bellman-Ford loop of `_inc_check` pops a `collections.deque`; an undetected negative cycle makes it
spin forever. The module attribute `unified_planning.model.delta_stn.deque` is looked up at call time, so replacing it
by a counting subclass turns a hang into an exception after a fixed number of queue pops (a work budget, not a
wall-clock one). Pass-through otherwise: same results, same exceptions.
"""
from collections import deque as _deque


class StepBudgetExceeded(Exception):
    pass


BUDGET = 20000  # queue pops inside ONE _inc_check call; the networks of C25 have <= 6 events


class CountingDeque(_deque):
    __slots__ = ("_pops",)

    def __init__(self, *a, **kw):
        super().__init__(*a, **kw)
        self._pops = 0

    def popleft(self):
        self._pops += 1
        if self._pops > BUDGET:
            raise StepBudgetExceeded(f"more than {BUDGET} queue pops in one incremental consistency check")
        return super().popleft()


def install():
    import unified_planning.model.delta_stn as m

    if m.deque is not CountingDeque:
        m.deque = CountingDeque
    return m

"""M-state: universal, pass-through, class-level monitor of unified_planning.model.state.UPState (owner: C36).

`StateMonitor(sink).install()` replaces UPState.__init__/make_child/get_value/__eq__/__hash__ by wrappers that call the
real function, never change arguments, results or exceptions, and judge every observed call against the shadow
finite-map model of vk/ref/statemap.py.  Shadows live outside the monitored objects in an id-keyed table with weakref
finalisers (a WeakKeyDictionary would call UPState.__hash__, which condenses the state: hazard H14).

sink protocol: sink.mon(), sink.case(), sink.count(key), sink.violation(mechanism, summary, info_dict)
"""
import weakref

from vk.ref import statemap
from vk.ref.statemap import Shadow, MISSING


class StateMonitor:
    def __init__(self, sink):
        self.sink = sink
        self._sh = {}  # id(state) -> (weakref, Shadow, fluent_set)
        self._hashes = {}  # id(state) -> first observed hash
        self._orig = None

    # ---- shadow table ------------------------------------------------------------------------------
    def _put(self, st, shadow, fs):
        i = id(st)

        def _gone(_ref, i=i, table=self._sh, hashes=self._hashes):
            table.pop(i, None)
            hashes.pop(i, None)

        self._sh[i] = (weakref.ref(st, _gone), shadow, fs)

    def _get(self, st):
        ent = self._sh.get(id(st))
        if ent is None or ent[0]() is not st:
            return None, None
        return ent[1], ent[2]

    def shadow_of(self, st):
        return self._get(st)[0]

    @staticmethod
    def _default_of(fs):
        defaults = fs.fluents_defaults  # read-only accessor of the problem

        def d(key):
            try:
                return defaults.get(key.fluent(), None)
            except Exception:
                return None

        return d

    # ---- install / uninstall ------------------------------------------------------------------------
    def install(self):
        from unified_planning.model.state import UPState
        from unified_planning.exceptions import UPStateMissingFluentError

        assert self._orig is None
        o = {k: UPState.__dict__[k] for k in ("__init__", "make_child", "get_value", "__eq__", "__hash__")}
        self._orig = o
        mon = self
        sink = self.sink

        def w_init(self_, values, problems_fluent_set, _father=None):
            try:
                snapshot = dict(values)
            except Exception:
                snapshot = None
            o["__init__"](self_, values, problems_fluent_set, _father)
            # only reached when the constructor accepted the arguments
            if snapshot is None:
                return
            if _father is None:
                mon._put(self_, Shadow(snapshot, 0, None), problems_fluent_set)
            else:
                fsh, _ = mon._get(_father)
                if fsh is not None:
                    mon._put(self_, fsh.child(snapshot), problems_fluent_set)

        def w_make_child(self_, updated_values):
            try:
                snapshot = dict(updated_values)
            except Exception:
                snapshot = None
            psh, fs = mon._get(self_)
            child = o["make_child"](self_, updated_values)
            if psh is not None and snapshot is not None:
                csh = psh.child(snapshot)
                mon._put(child, csh, fs)
                sink.count("mon:make_child")
                if csh.depth > 20:
                    sink.count("mon:make_child_depth>20")
            return child

        def w_get_value(self_, fluent):
            sh, fs = mon._get(self_)
            try:
                got = o["get_value"](self_, fluent)
            except UPStateMissingFluentError:
                if sh is not None:
                    sink.mon()
                    sink.case()
                    exp = statemap.value(sh, fluent, mon._default_of(fs))
                    sink.count("mon:get_value_missing")
                    if exp is not MISSING:
                        sink.violation(
                            "get_value-raises-missing-but-value-expected",
                            f"get_value({fluent}) raised UPStateMissingFluentError, the finite-map model says {exp}",
                            {"fluent": str(fluent), "expected": str(exp), "shadow": {str(k): str(v) for k, v in sh.vals.items()}},
                        )
                raise
            if sh is not None:
                sink.mon()
                sink.case()
                sink.count("mon:get_value")
                exp = statemap.value(sh, fluent, mon._default_of(fs))
                if exp is MISSING:
                    sink.violation(
                        "get_value-returns-for-missing-fluent",
                        f"get_value({fluent}) returned {got}, the finite-map model has neither an update nor a default",
                        {"fluent": str(fluent), "observed": str(got), "shadow": {str(k): str(v) for k, v in sh.vals.items()}},
                    )
                elif got is not exp and got != exp:
                    sink.violation(
                        "get_value-mismatch",
                        f"get_value({fluent}) returned {got}, the finite-map model says {exp} (depth {sh.depth})",
                        {"fluent": str(fluent), "observed": str(got), "expected": str(exp), "shadow": {str(k): str(v) for k, v in sh.vals.items()}},
                    )
            return got

        def w_hash(self_):
            hv = o["__hash__"](self_)
            sh, _ = mon._get(self_)
            if sh is not None:
                prev = mon._hashes.setdefault(id(self_), hv)
                sink.count("mon:hash")
                if prev != hv:
                    sink.mon()
                    sink.case()
                    sink.violation(
                        "hash-unstable",
                        f"hash of one state changed from {prev} to {hv}",
                        {"shadow": {str(k): str(v) for k, v in sh.vals.items()}},
                    )
            return hv

        def w_eq(self_, oth):
            got = o["__eq__"](self_, oth)
            if isinstance(oth, UPState):
                a, fa = mon._get(self_)
                b, fb = mon._get(oth)
                if a is not None and b is not None and fa is fb:
                    sink.mon()
                    sink.case()
                    exp = statemap.equal(a, b, mon._default_of(fa))
                    sink.count("mon:eq_expected_equal" if exp else "mon:eq_expected_unequal")
                    if exp and self_ is not oth and a.serial != b.serial:
                        sink.count("mon:eq_equal_distinct_objects")
                    if bool(got) != exp:
                        sink.violation(
                            "eq-mismatch:" + ("equal-contents-compare-unequal" if exp else "different-contents-compare-equal"),
                            f"s == t returned {got}, the finite-map model says {exp}",
                            {
                                "left": {str(k): str(v) for k, v in a.vals.items()},
                                "right": {str(k): str(v) for k, v in b.vals.items()},
                            },
                        )
                    elif exp:
                        ha, hb = mon._hashes.get(id(self_)), mon._hashes.get(id(oth))
                        if ha is not None and hb is not None and ha != hb:
                            sink.violation(
                                "hash-differs-for-equal-states",
                                f"equal states hash to {ha} and {hb}",
                                {
                                    "left": {str(k): str(v) for k, v in a.vals.items()},
                                    "right": {str(k): str(v) for k, v in b.vals.items()},
                                },
                            )
            return got

        UPState.__init__ = w_init
        UPState.make_child = w_make_child
        UPState.get_value = w_get_value
        UPState.__hash__ = w_hash
        UPState.__eq__ = w_eq
        return self

    def uninstall(self):
        from unified_planning.model.state import UPState

        if self._orig is not None:
            for k, v in self._orig.items():
                setattr(UPState, k, v)
            self._orig = None
        self._sh.clear()
        self._hashes.clear()

    def __enter__(self):
        return self.install()

    def __exit__(self, *a):
        self.uninstall()
        return False


# ---- entry point for the kit's plug-in (vk/mon/universal.py style): register under the name "state" ----------------------
class _LogSink:
    """Adapts a vk.mon.universal.Log (count / violation(prop, mechanism, summary, **extra)) to the sink protocol."""

    def __init__(self, log, prop="C36"):
        self.log, self.prop = log, prop

    def mon(self):
        self.log.count("state:judged")

    def case(self):
        pass

    def count(self, k):
        self.log.count("state:" + k)

    def violation(self, mechanism, summary, info):
        self.log.violation(self.prop, "monitor:" + mechanism, summary, **{"event": info})


def install(log):
    """Installs M-state on UPState; every judged call is counted as 'state:judged'. Returns the uninstall callable."""
    mon = StateMonitor(_LogSink(log)).install()
    return mon.uninstall

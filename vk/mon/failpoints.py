"""Source-free failpoints through sys.monitoring (CPython 3.12): raise InjectedFault at the k-th LINE event inside chosen code objects.

Used by C14 only, and only inside DagWalker._compute_node_result — exactly where a walker callback (user callable, arithmetic,
State.get_value, type check) can raise in reality (hazard H9: never inside dictionary / registry updates)."""
import sys


class InjectedFault(Exception):
    pass


class Failpoints:
    TOOL = 3  # sys.monitoring tool id (free slot)

    def __init__(self, codes):
        self.codes = list(codes)
        self.armed = None  # number of events to let pass before raising
        self.fired = 0
        self.events = 0
        self.active = False

    def install(self):
        mon = sys.monitoring
        try:
            mon.use_tool_id(self.TOOL, "vk-failpoints")
        except ValueError:
            mon.free_tool_id(self.TOOL)
            mon.use_tool_id(self.TOOL, "vk-failpoints")
        mon.register_callback(self.TOOL, mon.events.LINE, self._on_line)
        self.active = True

    def uninstall(self):
        mon = sys.monitoring
        if self.active:
            for c in self.codes:
                mon.set_local_events(self.TOOL, c, 0)
            mon.register_callback(self.TOOL, mon.events.LINE, None)
            mon.free_tool_id(self.TOOL)
            self.active = False

    def arm(self, after):
        # LINE events are enabled only while armed: they cost ~4x on the instrumented function otherwise
        self.armed = after
        for c in self.codes:
            sys.monitoring.set_local_events(self.TOOL, c, sys.monitoring.events.LINE)

    def disarm(self):
        self.armed = None
        for c in self.codes:
            sys.monitoring.set_local_events(self.TOOL, c, 0)

    def _on_line(self, code, line):
        if self.armed is None:
            return
        self.events += 1
        if self.armed <= 0:
            self.armed = None
            self.fired += 1
            raise InjectedFault(f"injected at {code.co_name}:{line}")
        self.armed -= 1

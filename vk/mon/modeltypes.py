"""M-modeltypes (owner: C23): scans everything a problem / action / action instance stores for a fluent or parameter and
reports the values that are not type-compatible with their target and the stored initial / default values that are not
constants.  Only read-only accessors are used; nothing is modified.

Compatibility (`compatible`): for a *constant* value the oracle is independent of the library's type lattice - a Boolean
constant fits Boolean targets only, an integer constant fits an int or real target whose bounds contain it, a real constant
fits a real target whose bounds contain it (never an int target), an object fits a user-type target that is the object's
type or one of its ancestors (own walk over `.father`).  For a non-constant expression the value set is not known
statically and the library notion `Type.is_compatible` (overlapping intervals, hazard H5) is kept.

bad(...) entries: (site, defect, target_text, value_text) with site in
  initial_defaults | fluents_defaults | explicit_initial_values | initial_values | action-effect | timed-effect | action-instance
and defect in incompatible | non-constant | untyped (value whose type cannot even be computed).
"""


def _vtype(v):
    try:
        return v.type
    except Exception:
        return None


def _within(ttype, x):
    lb, ub = ttype.lower_bound, ttype.upper_bound
    return (lb is None or lb <= x) and (ub is None or x <= ub)


def compatible(ttype, v):
    """Is the expression `v` an admissible value for a target of type `ttype`?  -> bool (see module docstring)."""
    if v.is_constant():
        if v.is_bool_constant():
            return ttype.is_bool_type()
        if v.is_int_constant():
            return (ttype.is_int_type() or ttype.is_real_type()) and _within(ttype, v.constant_value())
        if v.is_real_constant():
            return ttype.is_real_type() and _within(ttype, v.constant_value())
        if v.is_object_exp():
            if not ttype.is_user_type():
                return False
            t = v.object().type
            while t is not None:
                if t is ttype or t == ttype:
                    return True
                t = t.father
            return False
        return False
    vt = _vtype(v)
    if vt is None:
        return False
    try:
        return bool(ttype.is_compatible(vt))
    except Exception:
        return False


def _check(site, ttype, v, need_const, target_text, out):
    vt = _vtype(v)
    if vt is None:
        out.append((site, "untyped", target_text, str(v)))
        return
    ok = compatible(ttype, v)
    if not ok:
        out.append((site, "incompatible", f"{target_text}: {ttype}", f"{v}: {vt}"))
    if need_const and not v.is_constant():
        out.append((site, "non-constant", f"{target_text}: {ttype}", f"{v}: {vt}"))


def scan_effects(site, effects, out):
    for e in effects:
        _check(site, e.fluent.type, e.value, False, str(e.fluent), out)


def scan_action(a, out=None):
    out = [] if out is None else out
    effs = getattr(a, "effects", None)
    if isinstance(effs, dict):
        for t, el in effs.items():
            scan_effects("action-effect", el, out)
    elif effs is not None:
        scan_effects("action-effect", effs, out)
    return out


def scan_problem(pb, with_initial_values=True, out=None):
    out = [] if out is None else out
    for t, v in getattr(pb, "initial_defaults", {}).items():
        _check("initial_defaults", t, v, True, f"type {t}", out)
    for f, v in getattr(pb, "fluents_defaults", {}).items():
        _check("fluents_defaults", f.type, v, True, f"fluent {f.name}", out)
    for fe, v in getattr(pb, "explicit_initial_values", {}).items():
        _check("explicit_initial_values", fe.type, v, True, str(fe), out)
    if with_initial_values and hasattr(pb, "initial_values"):
        try:
            iv = pb.initial_values
        except Exception:
            iv = {}
        for fe, v in iv.items():
            _check("initial_values", fe.type, v, True, str(fe), out)
    for t, el in getattr(pb, "timed_effects", {}).items():
        scan_effects("timed-effect", el, out)
    for a in getattr(pb, "actions", []):
        scan_action(a, out)
    return out


def scan_action_instance(ai, out=None):
    out = [] if out is None else out
    for p, v in zip(ai.action.parameters, ai.actual_parameters):
        _check("action-instance", p.type, v, False, f"parameter {p.name}", out)
    return out


def snapshot(pb, actions=()):
    """Accessor-based picture of everything C23's calls may change (FNodes kept as objects: identity comparison)."""

    def effs(lst):
        return tuple((e.fluent, e.value, e.condition, e.kind.name, tuple(e.forall)) for e in lst)

    def act(a):
        e = a.effects
        if isinstance(e, dict):
            return (a.name, tuple((str(t), effs(l)) for t, l in e.items() if l))
        return (a.name, effs(e))

    return (
        tuple(f.name for f in pb.fluents),
        tuple((str(t), v) for t, v in pb.initial_defaults.items()),
        tuple((f.name, v) for f, v in pb.fluents_defaults.items()),
        tuple(pb.explicit_initial_values.items()),
        tuple((str(t), effs(l)) for t, l in pb.timed_effects.items() if l),
        tuple(act(a) for a in list(pb.actions) + [a for a in actions if all(a is not b for b in pb.actions)]),
    )


def show(snap):
    def s(x):
        if isinstance(x, tuple):
            return [s(y) for y in x]
        return str(x)

    return s(snap)

"""Diagnosis for C06/C07 violations: turns a witness into a *root-cause* mechanism string (owner: agent "compilers").

Nothing here takes part in a verdict.  A violation has already been established by the oracle (vk.ref.search / seqsem / traj);
this module only (1) localises the offending stage of a pipeline by replaying the plan stage by stage through freshly
compiled single stages, and (2) matches the witness against a decision list of known rewriting hazards so that each distinct
root cause gets its own narrow signature; everything else falls back to a generic "<compiler>:<where>:<reason>" string.
"""
from unified_planning.model.operators import OperatorKind as OK

from vk.mon import compilers_harness as H
from vk.ref import seqsem
from vk.ref.evalx import Interp, Unsupported, fluents_in, judge
from vk.ref.search import Space, guided, validate


# ---- pipeline stage localisation ---------------------------------------------------------------------------
def compile_stages(prep):
    """[(short name, P_prev, CompilerResult)] for the stages of a pipeline target, compiled one by one (diagnosis only)."""
    from unified_planning.engines import CompilationKind

    out = []
    p = prep.pb
    for short, kind in zip(prep.target.stages, prep.target.kinds):
        r = H._compiler_class(short)().compile(p, CompilationKind[kind])
        out.append((short, p, r))
        p = r.problem
    return out


def _steps_by_name(problem, names):
    return [(problem.action(n), tuple(args)) for n, args in names]


def _map_steps(P_prev, P_next, r, steps):
    """map reference steps on P_next back to reference steps on P_prev through r.map_back_action_instance."""
    ais = []
    for a, args in steps:
        m = r.map_back_action_instance(H._ai(P_next, a, args))
        if m is not None:
            ais.append(m)
    return H._steps_of(P_prev, ais)


def localise_unsound(prep, found):
    """(culprit short name, P_prev, P_next, steps on P_next, mapped steps on P_prev, info) for a compiled plan that maps
    back to an invalid plan; for single compilers this is the case itself."""
    if not prep.target.is_pipeline:
        steps, _ = H.map_back_plan(prep, found)
        v, info = validate(prep.pb, steps)
        return prep.target.name, prep.pb, prep.cp, found.steps, steps, info
    try:
        st = compile_stages(prep)
        cur = _steps_by_name(st[-1][2].problem, found.names())
        for short, P_prev, r in reversed(st):
            back = _map_steps(P_prev, r.problem, r, cur)
            v, info = validate(P_prev, back)
            if v == "invalid":
                return short, P_prev, r.problem, cur, back, info
            if v == "dontcare":
                break
            cur = back
    except Exception:  # diagnosis must never turn a finding into a harness error
        pass
    return None


# ---- hazard detectors ---------------------------------------------------------------------------------------
def _traj_fluents(problem):
    out = set()
    for tc in problem.trajectory_constraints:
        out |= {f.name for f in fluents_in(tc)}
    return out


def nonconstant_bool_assignment_on_traj_fluent(P, steps):
    tf = _traj_fluents(P)
    for a, _ in steps:
        for e in a.effects:
            fl = e.fluent.fluent()
            if fl.type.is_bool_type() and e.is_assignment() and not e.value.is_constant() and fl.name in tf:
                return True
    return False


def negation_pairs(P_prev, P_next):
    """(f, g) fluent-name pairs where g is a fluent introduced by the compilation that mirrors `not f` initially."""
    old = {f.name: f for f in P_prev.fluents}
    pairs = []
    for g in P_next.fluents:
        if g.name in old or not g.type.is_bool_type():
            continue
        for fn, f in old.items():
            if f.type.is_bool_type() and g.name.startswith("not_" + fn) and len(f.signature) == len(g.signature):
                pairs.append((fn, g.name))
    return pairs


def fluent_and_negation_inconsistent(P_prev, P_next, steps_next):
    pairs = negation_pairs(P_prev, P_next)
    if not pairs:
        return False
    try:
        st, states, _, _ = seqsem.run_plan(P_next, steps_next)
    except Unsupported:
        return False
    for s in states:
        for fn, gn in pairs:
            for (name, args), v in s.items():
                if name == fn and (gn, args) in s and s[(gn, args)] == v:
                    return True
    return False


def executed_features(P, steps):
    """union of seqsem feature tags of the executed steps (as far as they execute)."""
    feats = set()
    s = seqsem.initial_state(P)
    for a, args in steps:
        try:
            r = seqsem.succ(P, s, a, args, check_invariants=False)
        except Unsupported:
            break
        feats |= set(r.info.get("features", ()))
        if r.status != seqsem.OKAY:
            break
        s = r.state
    return feats


def has_disjunctive_conditional_incdec(P, steps):
    for a, _ in steps:
        for e in a.effects:
            if (e.is_increase() or e.is_decrease()) and e.is_conditional() and _has_or(e.condition):
                return True
    return False


def disjunctive_incdec_targets(steps):
    out = set()
    for a, _ in steps:
        for e in a.effects:
            if (e.is_increase() or e.is_decrease()) and e.is_conditional() and _has_or(e.condition):
                out.add(e.fluent.fluent().name)
    return out


def differing_final_fluents(P1, steps1, P2, steps2):
    """names of fluents (present in both problems) whose ground values differ after executing both plans as far as they go."""
    try:
        _, st1, _, _ = seqsem.run_plan(P1, steps1)
        _, st2, _, _ = seqsem.run_plan(P2, steps2)
    except Unsupported:
        return set()
    a, b = st1[-1], st2[-1]
    return {k[0] for k in set(a) & set(b) if a[k] != b[k]}


def _has_or(e):
    stack = [e]
    while stack:
        x = stack.pop()
        if x.node_type in (OK.OR, OK.IMPLIES, OK.IFF, OK.EXISTS):
            return True
        if x.node_type == OK.NOT and x.arg(0).node_type in (OK.AND, OK.FORALL):
            return True
        stack.extend(x.args)
    return False


def conflicting_conditional_assignments(action, fluent_name):
    n = 0
    for e in action.effects:
        if e.fluent.fluent().name == fluent_name and e.is_assignment() and e.is_conditional():
            n += 1
    return n


def unfired_conditional_assignment_before(P, steps, upto):
    """Did a step before index `upto` contain a conditional assignment to a numeric fluent whose condition was false?"""
    s = seqsem.initial_state(P)
    for a, args in steps[:upto]:
        I = Interp(P, s, {p.name: v for p, v in zip(a.parameters, args)})
        for e in a.effects:
            if e.is_conditional() and e.is_assignment() and not e.fluent.fluent().type.is_bool_type() and not e.forall:
                try:
                    if judge(e.condition, I) == "F":
                        return True
                except Unsupported:
                    pass
        r = seqsem.succ(P, s, a, args, check_invariants=False)
        if r.status != seqsem.OKAY:
            break
        s = r.state
    return False


def undefined_introduced_fluents(P_prev, P_next):
    """names of fluents introduced by the compilation that have an undefined ground value in the compiled initial state."""
    old = {f.name for f in P_prev.fluents}
    s0 = seqsem.initial_state(P_next)
    out = set()
    for f, args in seqsem.ground_fluents(P_next):
        if f.name not in old and (f.name, args) not in s0:
            out.add(f.name)
    return out


def initial_state_broken(P_prev, P_next):
    """compiled initial state violates numeric bounds / invariants although the original one does not."""

    def bad(P):
        s0 = seqsem.initial_state(P)
        ok, _ = seqsem.bounds_ok(P, s0)
        return (not ok) or (bool(P.state_invariants) and seqsem.invariants_status(P, s0) is False)

    return bad(P_next) and not bad(P_prev)


def mixed_type_object_equality(P, action_name=None):
    """does some action condition of P compare two object-typed terms of *different* user types (type hierarchy)?
    With `action_name`: only the conditions of that action (the one the original plan breaks at), when P has it."""
    acts = [a for a in P.actions if action_name is None or a.name == action_name] or list(P.actions)
    for a in acts:
        conds = list(getattr(a, "preconditions", []))
        for e in getattr(a, "effects", []):
            conds.append(e.condition)
        for c in conds:
            stack = [c]
            while stack:
                x = stack.pop()
                if x.node_type == OK.EQUALS and x.arg(0).type.is_user_type() and x.arg(1).type.is_user_type() and x.arg(0).type != x.arg(1).type:
                    return True
                stack.extend(x.args)
    return False


def constant_true_conjunct(action):
    """does some precondition contain a conjunct made of constants only (e.g. 1 <= 2)?"""
    for p in action.preconditions:
        stack = [p]
        while stack:
            x = stack.pop()
            if x.node_type in (OK.LE, OK.LT, OK.EQUALS) and all(a.is_constant() for a in x.args):
                return True
            if x.node_type in (OK.AND, OK.OR, OK.NOT, OK.IMPLIES, OK.IFF):
                stack.extend(x.args)
    return False


# ---- C06 ----------------------------------------------------------------------------------------------------
def unsound_mechanism(prep, found):
    loc = localise_unsound(prep, found)
    if loc is None:
        steps, _ = H.map_back_plan(prep, found)
        v, info = validate(prep.pb, steps)
        return f"{prep.target.name}:mapped-plan-invalid:{info.get('where')}:{info.get('reason')}", None
    culprit, P_prev, P_next, steps_next, steps_prev, info = loc
    where, reason = info.get("where"), str(info.get("reason"))
    try:
        if culprit == "tcrm" and nonconstant_bool_assignment_on_traj_fluent(P_prev, steps_prev):
            return "tcrm:nonconstant-boolean-assignment-regressed-as-positive-effect", culprit
        if culprit == "ncrm" and fluent_and_negation_inconsistent(P_prev, P_next, steps_next):
            if "add-after-delete" in executed_features(P_prev, steps_prev):
                return "ncrm:add-after-delete-makes-fluent-and-its-negation-fluent-both-true", culprit
            return "ncrm:fluent-and-its-negation-fluent-inconsistent", culprit
        if culprit == "cerm" and where == "step" and reason == "conflicting-assignments":
            a, _ = steps_prev[info["index"]]
            fl = info.get("info", {}).get("fluent", ("?",))[0]
            if conflicting_conditional_assignments(a, fl) >= 1:
                return "cerm:variant-applies-one-of-two-conflicting-conditional-assignments", culprit
        if culprit == "dcrm" and has_disjunctive_conditional_incdec(P_prev, steps_prev):
            if differing_final_fluents(P_prev, steps_prev, P_next, steps_next) & disjunctive_incdec_targets(steps_prev):
                return "dcrm:disjunctive-conditional-increase-split-into-effects-that-all-fire", culprit
        if culprit == "uinr" and (where == "goal" or (where == "step" and reason in ("precondition-undefined", "effect-value-undefined"))):
            upto = info["index"] if where == "step" else len(steps_prev)
            if unfired_conditional_assignment_before(P_prev, steps_prev, upto):
                return "uinr:unfired-conditional-assignment-marks-fluent-as-defined", culprit
        if culprit == "utfr" and where == "step" and reason == "conflicting-assignments":
            fl = info.get("info", {}).get("fluent", ("?",))[0]
            if P_prev.has_fluent(fl) and P_prev.fluent(fl).type.is_user_type():
                return "utfr:conflicting-object-fluent-assignments-become-boolean-add-and-delete", culprit
    except Unsupported:
        pass
    return f"{culprit}:mapped-plan-invalid:{where}:{reason}", culprit


# ---- C07 ----------------------------------------------------------------------------------------------------
def _label_table(P0, P_i, chain):
    """label of each ground instance of P_i through the chain of map-backs [(P_prev, P_next, r)...] down to P0."""
    insts = seqsem.all_instances(P_i)
    labs = []
    for a, args in insts:
        cur = [(a, args)]
        try:
            for P_prev, P_next, r in reversed(chain):
                cur = _map_steps(P_prev, P_next, r, cur)
                if not cur:
                    break
            labs.append((cur[0][0].name, cur[0][1]) if cur else None)
        except ValueError as e:
            labs.append(("?", str(e)))
    return insts, labs


def search_counterpart(space, lab, pi, skippable):
    by_label, none_idx = {}, []
    for i, l in enumerate(lab):
        if l is None:
            none_idx.append(i)
        else:
            by_label.setdefault(l, []).append(i)
    kmax = len(pi) + (1 if none_idx else 0)

    def allowed(tag, n):
        j = tag or 0
        out = []
        jj = j
        while jj < len(pi):
            for i in by_label.get(pi[jj], ()):
                out.append((i, jj + 1))
            if skippable[jj]:
                jj += 1
            else:
                break
        for i in none_idx:
            out.append((i, j))
        return out

    def accept(tag):
        return all(skippable[(tag or 0) :])

    found, complete = guided(space, kmax, allowed, accept)
    return found, complete, by_label, none_idx, kmax


def localise_incomplete(prep, pi, skippable):
    """first pipeline stage whose output has no counterpart of the original plan: (short, P_prev, P_next) or None."""
    if not prep.target.is_pipeline:
        return prep.target.name, prep.pb, prep.cp
    try:
        st = compile_stages(prep)
        chain = []
        for short, P_prev, r in st:
            chain.append((P_prev, r.problem, r))
            insts, labs = _label_table(prep.pb, r.problem, chain)
            sp = Space(r.problem, node_cap=prep.b["node_cap"], instances=insts)
            found, complete, _, _, _ = search_counterpart(sp, labs, pi, skippable)
            if found is None:
                return short, P_prev, r.problem
    except Exception:
        pass
    return None


def static_bool_precondition_params(P, action):
    """max number of different action parameters occurring in a positive precondition conjunct that is a Boolean fluent no
    action of P (and no timed effect) writes; 0 when the action has no such conjunct.  (Diagnosis only.)"""
    written = set()
    for a in P.actions:
        for e in getattr(a, "effects", []):
            written.add(e.fluent.fluent().name)
    for effs in getattr(P, "timed_effects", {}).values():
        for e in effs:
            written.add(e.fluent.fluent().name)
    best = 0
    todo = list(getattr(action, "preconditions", []))
    while todo:
        c = todo.pop()
        if c.is_and():
            todo.extend(c.args)
        elif c.is_fluent_exp() and c.fluent().type.is_bool_type() and c.fluent().name not in written:
            best = max(best, len({x.parameter().name for x in c.args if x.is_parameter_exp()}))
    return best


def incomplete_mechanism(prep, fp, pi, skippable, stage, j):
    loc = localise_incomplete(prep, pi, skippable)
    if loc is None:
        return f"{prep.target.name}:no-counterpart:{stage}", None
    culprit, P_prev, P_next = loc
    try:
        if initial_state_broken(P_prev, P_next):
            if culprit == "uinr":
                return "uinr:injected-default-value-outside-the-declared-bounds", culprit
            return f"{culprit}:compiled-initial-state-violates-bounds-or-invariants", culprit
        steps = fp.steps  # steps of the *original* problem: the constructs are looked up there, whatever stage is the culprit
        P0 = prep.pb
        if culprit == "tcrm":
            und = undefined_introduced_fluents(P_prev, P_next)
            if und and ("undefined" in stage):
                return "tcrm:monitoring-atom-left-undefined-in-the-compiled-initial-state", culprit
            if nonconstant_bool_assignment_on_traj_fluent(P0, steps):
                return "tcrm:nonconstant-boolean-assignment-regressed-as-positive-effect", culprit
            if und:
                return "tcrm:monitoring-atom-left-undefined-in-the-compiled-initial-state", culprit
        if culprit == "dcrm":
            if j < len(steps) and stage.startswith("no-compiled-instance") and constant_true_conjunct(steps[j][0]):
                return "dcrm:dnf-of-precondition-with-constant-true-conjunct-is-false", culprit
            if has_disjunctive_conditional_incdec(P0, steps):
                return "dcrm:disjunctive-conditional-increase-split-into-effects-that-all-fire", culprit
        if culprit == "grounder" and j < len(steps) and stage.startswith("no-compiled-instance"):
            n = static_bool_precondition_params(P0, steps[j][0])
            if n:
                return f"grounder:needed-grounding-dropped:positive-static-boolean-precondition-over-{'one-parameter' if n == 1 else 'several-parameters'}", culprit
        if culprit == "ncrm" and not stage.startswith("goal") and mixed_type_object_equality(P_prev, steps[j][0].name if j < len(steps) else None):
            return "ncrm:negated-object-equality-enumerates-only-the-objects-of-the-left-operand-type", culprit
        if culprit == "ncrm" and negation_pairs(P_prev, P_next) and "add-after-delete" in executed_features(P0, steps):
            return "ncrm:add-after-delete-makes-fluent-and-its-negation-fluent-both-true", culprit
    except Unsupported:
        pass
    return f"{culprit}:no-counterpart:{stage}", culprit

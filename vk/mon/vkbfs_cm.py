"""Harness planner "vk-bfs" (owner: conformant-meta; C31): an exact breadth-first OneshotPlanner over the reference
semantics vk.ref.seqsem.  It is the "underlying planner that returns only valid plans and is complete on finite
problems" that C31 assumes: it returns a shortest plan when one exists, UNSOLVABLE_PROVEN only after enumerating the whole
reachable state space, and UNSOLVABLE_INCOMPLETELY when its state cap was hit or a don't-care class of the reference
semantics was met (the check then does not judge the case).

Register with   env.factory.add_engine("vk-bfs", "vk.mon.vkbfs_cm", "VkBfsPlanner")
Every call is logged in CALLS (reset by the check before each meta-engine solve)."""
import unified_planning as up
from unified_planning.engines.engine import Engine
from unified_planning.engines.mixins import OneshotPlannerMixin
from unified_planning.engines.results import PlanGenerationResult, PlanGenerationResultStatus
from unified_planning.model import ProblemKind
from unified_planning.model.problem_kind_versioning import LATEST_PROBLEM_KIND_VERSION

from vk.ref import seqsem
from vk.ref.bfs_cm import Space, explore
from vk.ref.evalx import Unsupported

CONFIG = {"max_states": 3000, "max_instances": 400}
CALLS = []

_FEATURES = dict(
    problem_class=["ACTION_BASED"],
    problem_type=["SIMPLE_NUMERIC_PLANNING", "GENERAL_NUMERIC_PLANNING"],
    typing=["FLAT_TYPING", "HIERARCHICAL_TYPING"],
    numbers=["BOUNDED_TYPES"],
    fluents_type=["INT_FLUENTS", "REAL_FLUENTS", "OBJECT_FLUENTS"],
    parameters=["BOOL_FLUENT_PARAMETERS", "BOUNDED_INT_FLUENT_PARAMETERS", "BOOL_ACTION_PARAMETERS", "BOUNDED_INT_ACTION_PARAMETERS"],
    conditions_kind=["NEGATIVE_CONDITIONS", "DISJUNCTIVE_CONDITIONS", "EQUALITIES", "EXISTENTIAL_CONDITIONS", "UNIVERSAL_CONDITIONS"],
    effects_kind=[
        "CONDITIONAL_EFFECTS",
        "INCREASE_EFFECTS",
        "DECREASE_EFFECTS",
        "STATIC_FLUENTS_IN_BOOLEAN_ASSIGNMENTS",
        "STATIC_FLUENTS_IN_NUMERIC_ASSIGNMENTS",
        "STATIC_FLUENTS_IN_OBJECT_ASSIGNMENTS",
        "FLUENTS_IN_BOOLEAN_ASSIGNMENTS",
        "FLUENTS_IN_NUMERIC_ASSIGNMENTS",
        "FLUENTS_IN_OBJECT_ASSIGNMENTS",
        "FORALL_EFFECTS",
    ],
    initial_state=["UNDEFINED_INITIAL_NUMERIC", "UNDEFINED_INITIAL_SYMBOLIC"],
)


def _kind():
    k = ProblemKind(version=LATEST_PROBLEM_KIND_VERSION)
    for group, names in _FEATURES.items():
        setter = getattr(k, "set_" + group)
        for n in names:
            setter(n)
    return k


class VkBfsPlanner(Engine, OneshotPlannerMixin):
    def __init__(self, **kwargs):
        Engine.__init__(self)
        OneshotPlannerMixin.__init__(self)

    @property
    def name(self):
        return "vk-bfs"

    @staticmethod
    def supported_kind():
        return _kind()

    @staticmethod
    def supports(problem_kind):
        return problem_kind <= _kind()

    @staticmethod
    def satisfies(optimality_guarantee):
        return False

    @staticmethod
    def get_credits(**kwargs):
        return None

    def _solve(self, problem, heuristic=None, timeout=None, output_stream=None):
        from unified_planning.plans import ActionInstance, SequentialPlan

        rec = {"states": 0, "complete": False, "found": False, "dontcare": 0, "unsupported": None, "capped": False}
        CALLS.append(rec)
        try:
            space = Space(problem)
            if len(space.insts) > CONFIG["max_instances"]:
                raise Unsupported("too many ground instances")
            ex, hit = explore(space, max_states=CONFIG["max_states"], stop_at=lambda i: space.goal(i) is True)
        except Unsupported as e:
            rec["unsupported"] = str(e)
            return PlanGenerationResult(PlanGenerationResultStatus.UNSOLVABLE_INCOMPLETELY, None, self.name)
        rec["states"] = len(ex.order)
        rec["dontcare"] = space.dontcare_transitions + space.dontcare_goals
        rec["capped"] = ex.capped
        if hit is not None:
            rec["found"] = True
            seq = ex.path_to(hit)
            ais = [ActionInstance(space.insts[ii][0], seqsem.param_exprs(problem, *space.insts[ii])) for ii in seq]
            return PlanGenerationResult(PlanGenerationResultStatus.SOLVED_SATISFICING, SequentialPlan(ais, problem.environment), self.name)
        rec["complete"] = ex.complete and rec["dontcare"] == 0
        if rec["complete"]:
            return PlanGenerationResult(PlanGenerationResultStatus.UNSOLVABLE_PROVEN, None, self.name)
        return PlanGenerationResult(PlanGenerationResultStatus.UNSOLVABLE_INCOMPLETELY, None, self.name)


def register(env):
    env.factory.add_engine("vk-bfs", "vk.mon.vkbfs_cm", "VkBfsPlanner")

"""Runs one shard of a check in its own process: python -m vk.shard C01 spec.json out.json"""
import importlib
import json
import os
import sys
import warnings

from vk.core import Result, jdump


class CaseTimeout(BaseException):
    """Raised by the per-case watchdog (BaseException: the checks' own `except Exception` must not swallow it)."""


def install_case_watchdog(mod, res):
    """Wall-clock watchdog around every `run_case` of a check module: a generated case on which the library (or the oracle)
    needs more than CASE_TIME_LIMIT seconds (exponential compilations: 2^n unconditional variants, DNF blow-up, huge groundings)
    is abandoned and counted as `case_watchdog_timeout` - inconclusive for that case, never a violation and never "held"."""
    import signal
    import threading

    fn = getattr(mod, "run_case", None)
    limit = getattr(mod, "CASE_TIME_LIMIT", 150)
    if fn is None or not limit or threading.current_thread() is not threading.main_thread():
        return

    def on_alarm(signum, frame):
        raise CaseTimeout()

    signal.signal(signal.SIGALRM, on_alarm)

    def guarded(*a, **k):
        signal.setitimer(signal.ITIMER_REAL, limit)
        try:
            return fn(*a, **k)
        except CaseTimeout:
            res.count("case_watchdog_timeout")
            res.count("case_watchdog_timeout:" + str(a[0])[:40] if a else "case_watchdog_timeout:?")
            return None
        finally:
            signal.setitimer(signal.ITIMER_REAL, 0)

    mod.run_case = guarded


def main():
    prop, sp, op = sys.argv[1], sys.argv[2], sys.argv[3]
    warnings.simplefilter("ignore")
    sys.setrecursionlimit(10000)
    with open(sp) as f:
        spec = json.load(f)
    mod = importlib.import_module(f"vk.checks.{prop.lower()}")
    res = Result(prop)
    install_case_watchdog(mod, res)
    try:
        mod.run_shard(spec, res)
    except Exception as e:  # the harness itself failed: inconclusive, never "held"
        res.harness_error("run_shard", e)
    hs = os.environ.get("PYTHONHASHSEED", "0")
    res.count("shards_with_pyhashseed:" + ("0" if hs == "0" else "varied"))
    out = res.to_json()
    if hs != "0":
        for v in out.get("violations", []):
            if isinstance(v.get("witness"), dict):
                v["witness"]["pyhashseed"] = hs
    with open(op, "w") as f:
        f.write(jdump(out))


if __name__ == "__main__":
    main()

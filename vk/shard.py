"""Runs one shard of a check in its own process: python -m vk.shard C01 spec.json out.json"""
import importlib
import json
import os
import sys
import warnings

from vk.core import Result, jdump


def main():
    prop, sp, op = sys.argv[1], sys.argv[2], sys.argv[3]
    warnings.simplefilter("ignore")
    sys.setrecursionlimit(10000)
    with open(sp) as f:
        spec = json.load(f)
    mod = importlib.import_module(f"vk.checks.{prop.lower()}")
    res = Result(prop)
    try:
        mod.run_shard(spec, res)
    except Exception as e:  # the harness itself failed: inconclusive, never "held"
        res.harness_error("run_shard", e)
    hs = os.environ.get("PYTHONHASHSEED", "0")
    res.count("shards_with_pyhashseed:" + ("0" if hs == "0" else "varied"))
    out = res.to_json()
    if hs != "0":
        for v in out.get("violations", []):
            if isinstance(v.get("witness"), dict):
                v["witness"]["pyhashseed"] = hs
    with open(op, "w") as f:
        f.write(jdump(out))


if __name__ == "__main__":
    main()

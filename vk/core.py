"""Core of the verification kit: case keys, per-shard result accumulator, hashing helpers.

Every check module `vk.checks.cNN` exposes:
    PROPERTY    : "C01"
    RULE        : text – how cases are generated and what makes one non-trivial / distinct
    ASSUMPTIONS : list of str
    TECHNIQUE   : short text
    def plan(tier, seed)      -> list of shard specs (JSON dicts; each has "cases": [case_key,...] or anything)
    def run_shard(spec, res)  -> None   (fills the `Result` accumulator)
    def thresholds(merged)    -> list of str   (reasons why the run is inconclusive; [] = coverage fine)
    def replay(witness, res)  -> None   (re-executes one witness; violations are appended to res)
"""
import hashlib
import json
import os
import random
import time
import traceback
from fractions import Fraction


def jdefault(o):
    if isinstance(o, Fraction):
        return str(o)
    if isinstance(o, (set, frozenset)):
        return sorted(map(str, o))
    if isinstance(o, tuple):
        return list(o)
    return repr(o)


def jdump(o, **kw):
    return json.dumps(o, default=jdefault, sort_keys=True, **kw)


def h(o) -> str:
    """Stable short hash of a JSON-able object."""
    return hashlib.sha1(jdump(o).encode()).hexdigest()[:16]


def rng_for(*parts) -> random.Random:
    return random.Random(":".join(str(p) for p in parts))


class Violation(Exception):
    pass


class Result:
    """Accumulator filled by one shard (or one replay)."""

    MAX_SAMPLES = 4
    MAX_VIOLATIONS = 40

    def __init__(self, prop: str):
        self.prop = prop
        self.evaluations = 0
        self.monitor_evals = 0
        self.nontrivial = set()
        self.counters = {}
        self.samples = []
        self.violations = []
        self.harness_errors = []
        self.t0 = time.time()

    # -- counting ---------------------------------------------------------------------------
    def count(self, key: str, n: int = 1):
        self.counters[key] = self.counters.get(key, 0) + n

    def case(self, n: int = 1):
        self.evaluations += n

    def mon(self, n: int = 1):
        self.monitor_evals += n

    def nt(self, key):
        """Register a distinct non-trivial case by (hashable/JSON-able) key."""
        self.nontrivial.add(key if isinstance(key, str) and len(key) <= 16 else h(key))

    def sample(self, s):
        if len(self.samples) < self.MAX_SAMPLES:
            self.samples.append(json.loads(jdump(s)))

    # -- violations -------------------------------------------------------------------------
    def violation(self, mechanism: str, summary: str, witness: dict):
        """mechanism: a narrow, witness-derived signature (used only to match known findings)."""
        self.count("violations_raw")
        if len(self.violations) < self.MAX_VIOLATIONS or not any(
            v["mechanism"] == mechanism for v in self.violations
        ):
            self.violations.append(
                {
                    "mechanism": mechanism,
                    "summary": summary,
                    "witness": json.loads(jdump(witness)),
                }
            )

    def harness_error(self, where: str, exc: BaseException):
        self.count("harness_errors")
        if len(self.harness_errors) < 10:
            self.harness_errors.append(
                {"where": where, "exc": repr(exc), "tb": traceback.format_exc()[-1500:]}
            )

    def to_json(self):
        return {
            "prop": self.prop,
            "evaluations": self.evaluations,
            "monitor_evals": self.monitor_evals,
            "nontrivial": sorted(self.nontrivial),
            "counters": self.counters,
            "samples": self.samples,
            "violations": self.violations,
            "harness_errors": self.harness_errors,
            "wall_s": time.time() - self.t0,
        }


def seed_from_env() -> int:
    try:
        return int(os.environ.get("VERIF_SEED", "0"))
    except ValueError:
        return 0


def chunk(lst, n):
    """Split lst into n nearly equal contiguous chunks (dropping empty ones)."""
    n = max(1, n)
    k, m = divmod(len(lst), n)
    out = []
    i = 0
    for j in range(n):
        size = k + (1 if j < m else 0)
        if size:
            out.append(lst[i : i + size])
        i += size
    return out


def simple_plan(prop, tier, seed, n_quick, n_thorough, shards_quick=8, shards_thorough=16, extra=None):
    """Standard plan: case keys "<seed>:<i>" spread over shards."""
    n = n_quick if tier == "quick" else n_thorough
    nsh = shards_quick if tier == "quick" else shards_thorough
    keys = [f"{prop}:{seed}:{i}" for i in range(n)]
    specs = []
    for si, ch in enumerate(chunk(keys, nsh)):
        spec = {"shard": si, "tier": tier, "seed": seed, "cases": ch}
        if extra:
            spec.update(extra)
        specs.append(spec)
    return specs

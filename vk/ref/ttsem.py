"""Reference temporal (time-triggered) semantics - DESIGN §3.4.  Owner: agent "temporal" (C04, C05, C26, C28).

Small API (everything else in this module is private):

    validate(problem, timed_steps, variant=None) -> Verdict
        timed_steps : [(start, action, args, duration)]   start/duration: Fraction|int|str ("3/2"); duration None for an
                      instantaneous action; action: the model Action object (or its name); args: python values as in seqsem.
        Verdict.status      : VALID | INVALID | DONTCARE
        Verdict.reason      : code of the first failure (INVALID) / first don't-care class (DONTCARE) / None
        Verdict.failures    : [{"code": ..., ...}]  every *definite* reason why the plan is invalid
        Verdict.core_failures(): failures other than "bounds" / "invariant" (those two are reported separately because
                              not every property that uses this oracle covers them)
        Verdict.dontcares   : [str] don't-care classes met (the plan is only judged when there is no definite failure)
        Verdict.features    : set of str (what the execution exercised: "coinciding-sources", "same-value-twice", ...)
        Verdict.trace       : [(time|None, state)] piecewise-constant trace; entry 0 is the initial state (time None)
        Verdict.final_state : last state, or None if it is not determined
    steps_of_plan(plan)                 -> timed_steps of a library TimeTriggeredPlan (read-only accessors)
    library_plan(problem, timed_steps)  -> TimeTriggeredPlan built through the public constructors
    hinges(problem, timed_steps)        -> set of classes {"openness","coinciding","intermediate","timed","duration"} on which
                                           the verdict depends (the verdict changes under the corresponding counterfactual)

Semantics.  Happening times H = all instants at which an effect is scheduled (action effects at start/end +- delay, timed
effects).  States are piecewise constant; S(h) = state after all effects of instant h were applied *simultaneously*, each
evaluated in the state before h.  The value "at time t" is the state after the last happening < t, i.e. a condition at an
instant sees the state *before* that instant's effects.  A condition over an interval I must hold at every t in I, i.e. in
the state before lo (if I is left-closed) and, if I has more than one point, in the state right after lo and in every S(h),
lo < h < hi (right-openness therefore only matters for one-point intervals).  GLOBAL_END is +infinity (after every happening).
A duration must lie in the action's possibly-open interval whose bounds are evaluated in the state before the start instant.
Simultaneous assignments of different values to one ground fluent are invalid; inside one action instance a Boolean
add+delete ends true and the same value assigned twice by one effect expression is fine.  Increases/decreases of one ground
fluent at one instant are summed.  The final state must satisfy the goals.  Bounded numeric types and state invariants must
hold in every state ("bounds" / "invariant" failures).
Don't-care (never judged): two different sources assigning the same value to one fluent at one instant; assignment together
with increase/decrease of one ground fluent; undefined reads that do not matter (see evalx.judge / seqsem); effect or
condition timings that fall outside [start, end] of their own action; empty/inverted condition intervals; malformed steps;
negative start times or durations;
two distinct relevant instants closer than the problem's epsilon; simulated effects; anything after a don't-care instant.
"""
from bisect import bisect_left, bisect_right
from fractions import Fraction

from vk.ref import seqsem
from vk.ref.evalx import UNDEF, Interp, Unsupported, const_value, holds, judge, ev, norm
from vk.ref.seqsem import Succ, OKAY, INAPP
from vk.ref.seqsem import DONTCARE as _SDC

VALID, INVALID, DONTCARE = "valid", "invalid", "dontcare"

CLASSES = ("openness", "coinciding", "intermediate", "timed", "duration")
_VARIANTS = {
    "openness": {"flip_open": True},
    "coinciding": {"after": True},
    "intermediate": {"no_intermediate": True},
    "timed": {"no_timed": True},
    "duration": {"no_duration": True},
}


class Verdict:
    __slots__ = ("status", "failures", "dontcares", "features", "trace", "final_state", "happenings")

    def __init__(self, status, failures, dontcares, features, trace, final_state, happenings):
        self.status, self.failures, self.dontcares, self.features = status, failures, dontcares, features
        self.trace, self.final_state, self.happenings = trace, final_state, happenings

    @property
    def reason(self):
        if self.failures:
            return self.failures[0]["code"]
        if self.dontcares:
            return self.dontcares[0]
        return None

    def core_failures(self):
        return [f for f in self.failures if f["code"] not in ("bounds", "invariant")]

    def codes(self, core=False):
        return sorted({f["code"] for f in (self.core_failures() if core else self.failures)})

    def __repr__(self):
        return f"Verdict({self.status}, {self.codes() or self.dontcares})"

    def to_json(self):
        return {
            "status": self.status,
            "failures": self.failures,
            "dontcares": self.dontcares,
            "features": sorted(self.features),
            "trace": [[None if t is None else str(t), seqsem.show_state(s)] for t, s in self.trace],
        }


# ---- plan conversion helpers ------------------------------------------------------------------------
def _frac(x):
    return None if x is None else Fraction(x)


def steps_of_plan(plan):
    out = []
    for s, ai, d in plan.timed_actions:
        out.append((Fraction(s), ai.action, tuple(const_value(p) for p in ai.actual_parameters), _frac(d)))
    return out


def library_plan(problem, timed_steps):
    from unified_planning.plans import ActionInstance, TimeTriggeredPlan

    acts = []
    for s, a, args, d in timed_steps:
        act = problem.action(a) if isinstance(a, str) else a
        acts.append((Fraction(s), ActionInstance(act, seqsem.param_exprs(problem, act, tuple(args))), _frac(d)))
    return TimeTriggeredPlan(acts, problem.environment)


def _is_durative(a):
    from unified_planning.model import DurativeAction

    return isinstance(a, DurativeAction)


def _kind(timing):
    return timing.timepoint.kind.name  # "START" | "END" | "GLOBAL_START" | "GLOBAL_END"


def _abs(timing, start, dur):
    k = _kind(timing)
    d = Fraction(timing.delay)
    if k == "START":
        return start + d
    if k == "END":
        return start + dur + d
    raise Unsupported(f"global timing {timing} inside an action")


def _gabs(timing):
    """Absolute time of a problem-level timing; None = +infinity (global end)."""
    k = _kind(timing)
    d = Fraction(timing.delay)
    if k == "GLOBAL_START":
        return d
    if k == "GLOBAL_END":
        if d != 0:
            raise Unsupported("global end with a delay")
        return None
    raise Unsupported(f"action-relative timing {timing} at problem level")


# ---- simultaneous application of the effects of one instant -------------------------------------------
def apply_instant(problem, s, groups):
    """groups: [(source, params dict, [Effect])]; all effects are evaluated in s.  Returns seqsem.Succ."""
    info = {"features": set()}
    assigns = {}  # key -> {source: [value]}
    srcs = {}  # (key, source) -> set of value-expression tags
    deltas = {}  # key -> [sum, n]
    fl_types = {}
    for source, params, effects in groups:
        I = Interp(problem, s, params)
        for eff in effects:
            if eff.forall:
                info["features"].add("forall")
            if eff.is_conditional():
                info["features"].add("conditional")
            for binding in seqsem.expand_effect(problem, eff):
                J = I.with_vars(binding) if binding else I
                targs = []
                for a in eff.fluent.args:
                    v = ev(a, J, "strict")
                    if v is UNDEF:
                        return Succ(_SDC, reason="effect target argument undefined")
                    targs.append(v)
                key = (eff.fluent.fluent().name, tuple(targs))
                fl_types[key] = eff.fluent.fluent().type
                if eff.is_conditional():
                    jc = judge(eff.condition, J)
                    if jc == "F":
                        continue
                    if jc != "T":
                        return Succ(_SDC, reason="effect condition reads an undefined fluent")
                jv = judge(eff.value, J)
                if jv == "U":
                    return Succ(INAPP, reason="effect-value-undefined", info={"fluent": key})
                if isinstance(jv, tuple) and jv[0] == "DC":
                    return Succ(_SDC, reason="effect value reads an undefined fluent that does not matter")
                sv = jv[1] if isinstance(jv, tuple) else (jv == "T")
                if eff.is_assignment():
                    assigns.setdefault(key, {}).setdefault(source, []).append(sv)
                    tag = eff.value if eff.value.is_constant() else (eff.value, tuple(sorted(binding.items())))
                    srcs.setdefault((key, source), set()).add(tag)
                elif eff.is_increase() or eff.is_decrease():
                    d = deltas.setdefault(key, [0, 0, set()])
                    d[0] = d[0] + sv if eff.is_increase() else d[0] - sv
                    d[1] += 1
                    d[2].add(source)
                else:
                    return Succ(_SDC, reason="unknown effect kind")
    updates = {}
    for key, by_src in assigns.items():
        if key in deltas:
            return Succ(_SDC, reason="assignment and increase/decrease on one ground fluent")
        per_src = {}
        for source, vals in by_src.items():
            if fl_types[key].is_bool_type():
                if len(set(vals)) > 1:
                    info["features"].add("add-after-delete")
                per_src[source] = any(v is True for v in vals)
            else:
                distinct = []
                for v in vals:
                    if not any(v == d for d in distinct):
                        distinct.append(v)
                if len(distinct) > 1:
                    return Succ(INAPP, reason="conflicting-assignments", info={"fluent": key, "values": distinct, "sources": [source]})
                if len(vals) > 1:
                    if len(srcs[(key, source)]) > 1:
                        return Succ(_SDC, reason="same value assigned twice through different value expressions")
                    info["features"].add("same-value-twice")
                per_src[source] = distinct[0]
        vals = list(per_src.values())
        if len(per_src) > 1:
            info["features"].add("cross-source-assignment")
            if any(v != vals[0] for v in vals[1:]):
                return Succ(INAPP, reason="conflicting-assignments", info={"fluent": key, "values": vals, "sources": sorted(map(str, per_src))})
            return Succ(_SDC, reason="different sources assign the same value at the same instant")
        updates[key] = vals[0]
    for key, (d, n, who) in deltas.items():
        if key not in s:
            return Succ(_SDC, reason="increase/decrease of an undefined fluent")
        if n > 1:
            info["features"].add("accumulated-incdec")
        if len(who) > 1:
            info["features"].add("cross-source-incdec")
        updates[key] = norm(s[key] + d)
    s2 = dict(s)
    s2.update(updates)
    info["changed"] = {k for k, v in updates.items() if s.get(k, UNDEF) is UNDEF or s[k] != v}
    return Succ(OKAY, state=s2, info=info)


# ---- the validator ------------------------------------------------------------------------------------
def _in_interval(d, lo, hi, lopen, ropen):
    if d < lo or (lopen and d == lo):
        return False
    if d > hi or (ropen and d == hi):
        return False
    return True


def validate(problem, timed_steps, variant=None) -> Verdict:
    v = variant or {}
    failures, dcs, features = [], [], set()
    steps = []
    for i, (st, a, args, d) in enumerate(timed_steps):
        act = problem.action(a) if isinstance(a, str) else a
        st, d = Fraction(st), _frac(d)
        dur = _is_durative(act)
        if st < 0:
            dcs.append("negative start time")
        if dur and d is None:
            dcs.append("durative action without duration")
        if not dur and d is not None:
            dcs.append("instantaneous action with a duration")
        if dur and d is not None and d < 0:
            dcs.append("negative duration")  # happenings before the action's own start: nothing sensible to demand
        steps.append((st, act, tuple(args), d, dur))
    if getattr(problem, "processes", None) or getattr(problem, "events", None):
        raise Unsupported("processes / events")
    if any(getattr(st_[1], "continuous_effects", None) for st_ in steps):
        raise Unsupported("continuous effects")
    s0 = seqsem.initial_state(problem)

    effs = {}
    if dcs:
        return Verdict(DONTCARE, failures, dcs, features, [(None, s0)], None, [])

    conds = []  # dicts
    durs = []
    instants = set()  # every relevant instant (for the epsilon class)
    for i, (st, act, args, d, dur) in enumerate(steps):
        params = {p.name: val for p, val in zip(act.parameters, args)}
        instants.add(st)
        if not dur:
            if getattr(act, "simulated_effect", None) is not None:
                dcs.append("simulated effect")
            effs.setdefault(st, []).append((i, params, list(act.effects)))
            for c in act.preconditions:
                conds.append(dict(lo=st, hi=st, lopen=False, ropen=False, expr=c, params=params, src=i, kind="precondition", inter=False))
            continue
        if act.simulated_effects:
            dcs.append("simulated effect")
        end = st + d
        instants.add(end)
        durs.append((i, st, d, act, params))
        for timing, el in act.effects.items():
            t = _abs(timing, st, d)
            inter = Fraction(timing.delay) != 0
            if inter:
                features.add("intermediate-effect")
                if v.get("no_intermediate"):
                    continue
            if not (st <= t <= end):
                dcs.append("effect scheduled outside its action's span")
            instants.add(t)
            effs.setdefault(t, []).append((i, params, list(el)))
        for iv, cl in act.conditions.items():
            lo, hi = _abs(iv.lower, st, d), _abs(iv.upper, st, d)
            inter = Fraction(iv.lower.delay) != 0 or Fraction(iv.upper.delay) != 0
            if inter:
                features.add("intermediate-condition")
                if v.get("no_intermediate"):
                    continue
            if lo < st or hi > end:
                dcs.append("condition scheduled outside its action's span")
            instants.update((lo, hi))
            for c in cl:
                conds.append(dict(lo=lo, hi=hi, lopen=iv.is_left_open(), ropen=iv.is_right_open(), expr=c, params=params, src=i, kind="condition", inter=inter))
    if not v.get("no_timed"):
        for timing, el in problem.timed_effects.items():
            t = _gabs(timing)
            if t is None:
                dcs.append("timed effect at global end")
                continue
            features.add("timed-effect")
            instants.add(t)
            effs.setdefault(t, []).append(("timed", {}, list(el)))
        for iv, gl in problem.timed_goals.items():
            lo, hi = _gabs(iv.lower), _gabs(iv.upper)
            features.add("timed-goal")
            for g in gl:
                conds.append(dict(lo=lo, hi=hi, lopen=iv.is_left_open(), ropen=iv.is_right_open(), expr=g, params={}, src="timed", kind="timed-goal", inter=False))
            instants.update(x for x in (lo, hi) if x is not None)
    elif problem.timed_effects or problem.timed_goals:
        features.add("timed-dropped")

    if dcs:
        # structurally ill-formed input (timings outside the action's own span, simulated effects, ...): the time line
        # itself is not well defined, so not even an "invalid" verdict is demanded
        return Verdict(DONTCARE, [], dcs, features, [(None, s0)], None, sorted(effs))

    eps = getattr(problem, "epsilon", None)
    if eps is not None:
        srt = sorted(instants | {Fraction(0)})
        if any(0 < b - a < eps for a, b in zip(srt, srt[1:])):
            dcs.append("epsilon-separation")

    # ---- trace ------------------------------------------------------------------------------------
    times = sorted(effs)
    states = [s0]
    trace = [(None, s0)]
    for t in times:
        groups = effs[t]
        if len({g[0] for g in groups}) > 1:
            features.add("coinciding-sources")
        r = apply_instant(problem, states[-1], groups)
        features |= r.info.get("features", set()) if isinstance(r.info, dict) else set()
        if r.status == OKAY:
            states.append(r.state)
            trace.append((t, r.state))
        elif r.status == INAPP:
            failures.append({"code": r.reason, "time": str(t), **{k: str(x) for k, x in r.info.items() if k != "features"}})
            break
        else:
            dcs.append(r.reason)
            break
    known = len(states)  # states[0..known-1] are determined
    complete = known == len(times) + 1

    def state_at(n):
        return states[n] if n < known else None

    # ---- durations -------------------------------------------------------------------------------
    if not v.get("no_duration"):
        for i, st, d, act, params in durs:
            n = bisect_left(times, st)
            s = state_at(n)
            if s is None:
                dcs.append("duration bound evaluated after an undetermined instant")
                continue
            I = Interp(problem, s, params)
            di = act.duration
            lo_j, hi_j = judge(di.lower, I), judge(di.upper, I)
            if lo_j == "U" or hi_j == "U":
                failures.append({"code": "duration-bound-undefined", "step": i})
                continue
            if not (isinstance(lo_j, tuple) and lo_j[0] == "V" and isinstance(hi_j, tuple) and hi_j[0] == "V"):
                dcs.append("duration bound reads an undefined fluent that does not matter")
                continue
            lo, hi = lo_j[1], hi_j[1]
            lopen, ropen = di.is_left_open(), di.is_right_open()
            if v.get("flip_open"):
                lopen, ropen = not lopen, not ropen
            if d == lo or d == hi:
                features.add("duration-on-bound")
                if (d == lo and di.is_left_open()) or (d == hi and di.is_right_open()):
                    features.add("duration-on-open-bound")
            if not _in_interval(d, lo, hi, lopen, ropen):
                failures.append({"code": "duration", "step": i, "duration": str(d), "empty": lo > hi or (lo == hi and (lopen or ropen)), "interval": f"{'(' if lopen else '['}{lo}, {hi}{')' if ropen else ']'}"})

    # ---- conditions ------------------------------------------------------------------------------
    for c in conds:
        lo, hi, lopen, ropen = c["lo"], c["hi"], c["lopen"], c["ropen"]
        if lo is None:  # interval starting at global end: the final state
            need = [(len(times), "final")]
        else:
            if hi is not None and (lo > hi or (lo == hi and (lopen or ropen))):
                dcs.append("empty condition interval")
                continue
            if v.get("flip_open") and (hi is None or lo < hi):
                lopen = not lopen
            need = []
            n_lt, n_le = bisect_left(times, lo), bisect_right(times, lo)
            if not lopen:
                need.append((n_le if v.get("after") else n_lt, "pre"))
            if hi is None or lo < hi:
                need.append((n_le, "post-lo:happening" if n_le != n_lt else "post-lo:gap"))
                hi_cnt = len(times) if hi is None else bisect_left(times, hi)
                for n in range(n_le + 1, hi_cnt + 1):
                    need.append((n, "inside"))
                if v.get("after") and hi is not None and not ropen:
                    need.append((bisect_right(times, hi), "inside"))
                if lopen:
                    features.add("left-open-condition")
                    if n_le == n_lt:
                        features.add("left-open-condition-gap")
        seen, bad, unknown, dc = set(), [], False, False
        for n, label in need:
            if n in seen:
                continue
            seen.add(n)
            s = state_at(n)
            if s is None:
                unknown = True
                continue
            hv = holds(c["expr"], Interp(problem, s, c["params"]))
            if hv is False:
                bad.append(label)
            elif hv is None:
                dc = True
        if bad:
            failures.append({"code": c["kind"] + ":" + "+".join(sorted(set(bad))), "src": str(c["src"]), "expr": str(c["expr"]), "interval": f"{'(' if lopen else '['}{lo}, {hi}{')' if ropen else ']'}"})
        elif unknown:
            dcs.append("condition over an undetermined state")
        elif dc:
            dcs.append("condition reads an undefined fluent but is true under every completion")

    # ---- bounds / invariants in every determined state ------------------------------------------------
    for n in range(known):
        s = states[n]
        ok, bad = seqsem.bounds_ok(problem, s)
        if not ok:
            failures.append({"code": "bounds", "time": None if n == 0 else str(times[n - 1]), "fluent": str(bad), "final": complete and n == known - 1 and n > 0})
            break
    if problem.state_invariants:
        for n in range(known):
            st_ = seqsem.invariants_status(problem, states[n])
            if st_ is None:
                dcs.append("invariant reads an undefined fluent")
                break
            if st_ is False:
                failures.append({"code": "invariant", "time": None if n == 0 else str(times[n - 1]), "final": complete and n == known - 1 and n > 0, "initial": n == 0})
                break

    # ---- goals -----------------------------------------------------------------------------------
    final = states[-1] if complete else None
    if final is not None:
        gs = seqsem.goal_status(problem, final)
        if gs is None:
            dcs.append("goal reads an undefined fluent but is true under every completion")
        elif gs is False:
            failures.append({"code": "goal"})
    status = INVALID if failures else (DONTCARE if dcs else VALID)
    return Verdict(status, failures, dcs, features, trace, final, times)


def core_status(verdict):
    """Status when bounds / invariants are left out of the judgement (C05 / C28 use this)."""
    if verdict.core_failures():
        return INVALID
    if verdict.failures or verdict.dontcares:
        return DONTCARE
    return VALID


def hinges(problem, timed_steps, base=None, core=True):
    """Classes of CLASSES whose counterfactual semantics changes the (core) verdict."""
    base = base or validate(problem, timed_steps)
    st = core_status if core else (lambda x: x.status)
    b = st(base)
    out = set()
    if b == DONTCARE:
        return out
    for cls, var in _VARIANTS.items():
        try:
            w = st(validate(problem, timed_steps, var))
        except Unsupported:
            continue
        if w != DONTCARE and w != b:
            out.add(cls)
    return out

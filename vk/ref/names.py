"""Reference lexical rules of the target languages for C38 (owner: proto-names).

The tables below are transcribed from the language definitions, NOT from the writers' own tables:

PDDL  — D. Kovacs, "BNF definition of PDDL 3.1" (which subsumes Fox & Long's PDDL 2.1 and Gerevini & Long's PDDL 3.0):
        <name> ::= <letter> <any char>*      <any char> ::= <letter> | <digit> | - | _      <variable> ::= ?<name>
        the language is case-insensitive.  The BNF has no "reserved word" production; a word is *reserved* here when it is
        a terminal that can stand in the same syntactic position as a user symbol of some namespace (head of a goal /
        effect / f-exp / type form), so that using it as a user symbol makes the file ambiguous.  Words are grouped by the
        language fragment that introduces them; a fragment is only enforced on files that use it (see pddl_reserved()).
ANML  — Smith, Frank, Cushing, "The ANML Language" (2008), list of keywords / reserved identifiers; identifiers are
        letter (letter | digit | _)*  (the UP ANML reader additionally accepts a leading underscore: accepted here too);
        ANML is case-sensitive.
"""
import re

# ---- PDDL ---------------------------------------------------------------------------------------------------------
PDDL_NAME_RE = re.compile(r"^[A-Za-z][A-Za-z0-9_-]*$")

# always reserved: structure of every domain / problem file, logical connectives, numeric effects, type constructors
PDDL_CORE = {
    "define", "domain", "problem",
    "and", "or", "not", "imply", "exists", "forall", "when",
    "either",
    "assign", "scale-up", "scale-down", "increase", "decrease",
}  # fmt: skip
# predefined types: reserved in the *type* namespace ("object" is the root, "number" the codomain of functions)
PDDL_TYPES_RESERVED = {"number"}
# metric section (problem file)
PDDL_METRIC = {"minimize", "maximize", "total-time"}
# :durative-actions — time specifiers and the special ?duration variable
PDDL_TEMPORAL = {"at", "over", "start", "end", "all"}
PDDL_TEMPORAL_VARIABLES = {"duration"}
# :constraints / :preferences (PDDL 3.0)
PDDL_CONSTRAINTS = {
    "always", "sometime", "within", "at-most-once", "sometime-after", "sometime-before", "always-within",
    "hold-during", "hold-after", "preference", "is-violated",
}  # fmt: skip


def pddl_valid_name(n: str) -> bool:
    return bool(PDDL_NAME_RE.match(n))


def pddl_valid_symbol(n: str, variable: bool) -> bool:
    """Grammar check of an emitted symbol (variables carry their leading '?')."""
    if variable:
        return n.startswith("?") and pddl_valid_name(n[1:])
    return pddl_valid_name(n)


def pddl_reserved(domain_text: str, problem_text: str):
    """-> dict namespace-class -> set of reserved lower-case words, for the fragments the two files actually use."""
    dt, pt = domain_text.lower(), problem_text.lower()
    words = set(PDDL_CORE)
    if "(:metric" in pt:
        words |= PDDL_METRIC
    if "(:durative-action" in dt:
        words |= PDDL_TEMPORAL
    if "(:constraints" in dt or "(:constraints" in pt:
        words |= PDDL_CONSTRAINTS
    variables = set()
    if "(:durative-action" in dt:
        variables |= PDDL_TEMPORAL_VARIABLES
    return {"symbol": words, "type": words | PDDL_TYPES_RESERVED, "variable": variables}


def pddl_keyword_violation(name: str, ns: str, reserved) -> bool:
    """ns: 'type' | 'variable' | anything else (predicate, function, action, object, constant, task, method)."""
    n = name.lower()
    if ns == "variable":
        return n.lstrip("?") in reserved["variable"]
    if ns == "type":
        return n in reserved["type"]
    return n in reserved["symbol"]


# soft list: words that are terminals of the BNF but that official benchmark domains do use as user symbols (e.g. the
# predicate `at`), or that belong to fragments the file does not use — observations only, never verdicts
PDDL_SOFT = PDDL_METRIC | PDDL_TEMPORAL | PDDL_CONSTRAINTS | PDDL_TEMPORAL_VARIABLES | {"object", "number", "total-cost", "undefined"}


# ---- a tiny S-expression reader for re-lexing the writer's output ------------------------------------------------
def sexp_tokens(text):
    text = re.sub(r";[^\n]*", "", text)
    return re.findall(r"\(|\)|[^\s()]+", text)


def sexp_parse(text):
    toks = sexp_tokens(text)
    pos = 0

    def rd():
        nonlocal pos
        t = toks[pos]
        pos += 1
        if t == "(":
            out = []
            while pos < len(toks) and toks[pos] != ")":
                out.append(rd())
            pos += 1
            return out
        return t

    out = []
    while pos < len(toks):
        if toks[pos] == ")":
            pos += 1
            continue
        out.append(rd())
    return out


def _typed_list(items):
    """[a, b, '-', t, c] -> [(a, t), (b, t), (c, None)]  (names only; type may be a list for either-types)"""
    out, pend = [], []
    i = 0
    while i < len(items):
        x = items[i]
        if x == "-" and i + 1 < len(items):
            t = items[i + 1]
            out += [(p, t) for p in pend]
            pend = []
            i += 2
            continue
        pend.append(x)
        i += 1
    out += [(p, None) for p in pend]
    return out


def pddl_declared(domain_text, problem_text):
    """Re-lex the declarations of the two files.  -> dict namespace -> list of declared names (as written), where
    namespaces are: domain-name, problem-name, type, constant+object, predicate+function, action (actions, durative
    actions, processes, events, tasks, methods), and 'params:<action>' for each parameter list."""
    decl = {"domain-name": [], "problem-name": [], "type": [], "object": [], "fluent": [], "action": []}
    for text, isdom in ((domain_text, True), (problem_text, False)):
        try:
            tree = sexp_parse(text)
        except Exception:
            continue
        for top in tree:
            if not (isinstance(top, list) and top and top[0] == "define"):
                continue
            for sec in top[1:]:
                if not isinstance(sec, list) or not sec:
                    continue
                head = sec[0]
                if head == "domain" and len(sec) > 1:
                    decl["domain-name"].append(sec[1])
                elif head == "problem" and len(sec) > 1:
                    decl["problem-name"].append(sec[1])
                elif head == ":types":
                    for n, t in _typed_list(sec[1:]):
                        if isinstance(n, str) and n != "object":
                            decl["type"].append(n)
                elif head in (":constants", ":objects"):
                    for n, t in _typed_list(sec[1:]):
                        if isinstance(n, str):
                            decl["object"].append(n)
                elif head in (":predicates", ":functions"):
                    for it in sec[1:]:
                        if isinstance(it, list) and it and isinstance(it[0], str):
                            decl["fluent"].append(it[0])
                            ps = [n for n, _ in _typed_list(it[1:]) if isinstance(n, str)]
                            decl.setdefault("params:fluent:" + it[0], []).extend(ps)
                elif head in (":action", ":durative-action", ":process", ":event", ":task", ":method") and len(sec) > 1 and isinstance(sec[1], str):
                    decl["action"].append(sec[1])
                    for j in range(2, len(sec) - 1):
                        if sec[j] == ":parameters" and isinstance(sec[j + 1], list):
                            ps = [n for n, _ in _typed_list(sec[j + 1]) if isinstance(n, str)]
                            decl.setdefault("params:" + sec[1], []).extend(ps)
    return decl


# ---- ANML ---------------------------------------------------------------------------------------------------------
ANML_NAME_RE = re.compile(r"^[A-Za-z_][A-Za-z0-9_]*$")

# "The ANML Language" manual: keywords, connectives, built-in constants and type names
ANML_KEYWORDS = {
    "action", "and", "constant", "duration", "else", "fact", "fluent", "function", "goal", "in", "instance", "motivated",
    "predicate", "symbol", "variable", "when", "with",
    "decomposition", "use", "coincident", "comprise", "comprises", "contain", "contains",
    "exists", "forall", "implies", "iff", "not", "or", "ordered", "unordered", "xor",
    "UNDEFINED", "all", "end", "false", "infinity", "object", "start", "true",
    "boolean", "float", "rational", "integer", "string", "type",
    "set", "subset", "powerset", "intersect", "union", "elt",
}  # fmt: skip


def anml_valid_name(n: str) -> bool:
    return bool(ANML_NAME_RE.match(n))


def anml_invalid_shape(n: str) -> str:
    """Shape of an emitted name that is not an ANML identifier (for mechanism strings)."""
    if n == "":
        return "empty"
    if not re.match(r"[A-Za-z_]", n[0]) or ord(n[0]) > 127:
        return "leading-non-letter"
    return "letter-then-illegal-char"


def anml_invalid_char_class(n: str) -> str:
    """Which class the first offending character belongs to (counter only)."""
    if n == "":
        return "empty"
    if n[0].isdigit():
        return "leading-digit"
    for c in n:
        if re.match(r"[A-Za-z0-9_]", c) and ord(c) < 128:
            continue
        if ord(c) > 127:
            return "non-ascii"
        if c == "-":
            return "dash"
        if c.isspace():
            return "whitespace"
        return "punctuation"
    return "other"


def anml_is_keyword(n: str) -> bool:
    return n in ANML_KEYWORDS


def anml_identifier_tokens(text):
    """All identifier-shaped tokens of an ANML text (comments and string literals removed)."""
    text = re.sub(r"//[^\n]*", "", text)
    text = re.sub(r'"[^"\n]*"', "", text)
    # (tokens glued to ':' are the dialect's operators ':increase' / ':decrease' / ':in', '#t' is the time variable)
    return re.findall(r"(?<![A-Za-z0-9_.#:])[A-Za-z_][A-Za-z0-9_]*", text)

"""C10 oracle: independent *syntactic* feature extractor (owner: check C10).

`extract(problem)` walks a problem through the read-only accessors of the model classes only (no library walker, no
`_KindFactory`, no `OperatorsExtractor`, no `FreeVarsExtractor`) and returns

    reqs  : list of (alts, feature_label, family, position)
            alts  = tuple of ProblemKind feature names, at least one of which the computed kind must contain
                    (one name = the feature is demanded exactly; several names = weakest form of a feature whose
                    definition depends on analysis, e.g. STATIC_FLUENTS_IN_DURATIONS | FLUENTS_IN_DURATIONS)
            feature_label = the feature (first alternative) — used for coverage (feature, position) pairs
            family = row group of the table in docs/problem_representation.rst (CONDITIONS_KIND, EFFECTS_KIND, ...)
            position = "<problem class>:<syntactic position>"
    notes : dict counter of don't-care observations (constructs the statement / the docs leave open)

Only the features named in the statement of C10 are implemented, each as defined in the feature table of
docs/problem_representation.rst:
  typing; fluent and parameter types; numeric bounds; negative / disjunctive / equality / quantified conditions;
  conditional / forall / increase / decrease / continuous effects; fluent-dependent assignments and durations;
  timed effects and goals; state invariants and trajectory constraints; quality metrics; undefined initial values.
"""
from itertools import product

from unified_planning.model.operators import OperatorKind as OK

COND_FEATURE = {
    OK.NOT: "NEGATIVE_CONDITIONS",
    OK.OR: "DISJUNCTIVE_CONDITIONS",
    OK.EQUALS: "EQUALITIES",
    OK.EXISTS: "EXISTENTIAL_CONDITIONS",
    OK.FORALL: "UNIVERSAL_CONDITIONS",
}
TRAJ_OPS = (OK.ALWAYS, OK.SOMETIME, OK.SOMETIME_BEFORE, OK.SOMETIME_AFTER, OK.AT_MOST_ONCE)


def subnodes(e):
    """All sub-expressions of e (own DFS over FNode.args)."""
    stack = [e]
    while stack:
        x = stack.pop()
        yield x
        stack.extend(x.args)


def has_fluent(e):
    return any(n.node_type == OK.FLUENT_EXP for n in subnodes(e))


def fluents_of(e):
    return {n.fluent() for n in subnodes(e) if n.node_type == OK.FLUENT_EXP}


def has_timing(e):
    return any(n.node_type == OK.TIMING_EXP for n in subnodes(e))


def problem_class(pb):
    from unified_planning.model import Problem
    from unified_planning.model.multi_agent import MultiAgentProblem
    from unified_planning.model.scheduling import SchedulingProblem
    from unified_planning.model.htn import HierarchicalProblem
    from unified_planning.model.contingent import ContingentProblem

    if isinstance(pb, MultiAgentProblem):
        return "ma"
    if isinstance(pb, SchedulingProblem):
        return "sched"
    if isinstance(pb, HierarchicalProblem):
        return "htn"
    if isinstance(pb, ContingentProblem):
        return "cont"
    if isinstance(pb, Problem):
        return "prob"
    return None


class _X:
    def __init__(self, pb, pc):
        self.pb = pb
        self.pc = pc
        self.reqs = []
        self.notes = {}
        self.registered = set(pb.user_types)

    def note(self, k):
        self.notes[k] = self.notes.get(k, 0) + 1

    def req(self, alts, family, where, label=None):
        if isinstance(alts, str):
            alts = (alts,)
        self.reqs.append((tuple(alts), label or alts[0], family, f"{self.pc}:{where}"))

    # ---- types ---------------------------------------------------------------------------------
    def utype(self, t, where):
        """A user type occurring at a syntactic position."""
        if not t.is_user_type():
            return
        if t not in self.registered:
            # a type the problem itself does not list among its user_types (e.g. only mentioned by a quantifier variable):
            # whether such a type is "in the problem" is not fixed by the docs
            self.note("dontcare:type-not-registered:" + where)
            return
        self.req(("FLAT_TYPING", "HIERARCHICAL_TYPING"), "TYPING", where, label="FLAT_TYPING")
        if t.father is not None:
            self.req("HIERARCHICAL_TYPING", "TYPING", where)

    def fluent(self, f, where, in_dur_or_cost=False):
        t = f.type
        self.utype(t, where + "-type")
        if t.is_int_type() or t.is_real_type():
            if t.lower_bound is not None or t.upper_bound is not None:
                self.req("BOUNDED_TYPES", "NUMBERS", where + "-type")
            if in_dur_or_cost:
                # the docs' EXPRESSION_DURATION / ACTIONS_COST_KIND rows describe such a fluent; demanded there
                self.note("dontcare:numeric-fluent-only-demanded-via-duration-or-cost")
            else:
                self.req("INT_FLUENTS" if t.is_int_type() else "REAL_FLUENTS", "FLUENTS_TYPE", where + "-type")
        elif t.is_user_type():
            self.req("OBJECT_FLUENTS", "FLUENTS_TYPE", where + "-type")
        for p in f.signature:
            pt = p.type
            self.utype(pt, where + "-param")
            if pt.is_bool_type():
                self.req("BOOL_FLUENT_PARAMETERS", "PARAMETERS", where + "-param")
            elif pt.is_int_type():
                if pt.lower_bound is not None and pt.upper_bound is not None:
                    self.req("BOUNDED_INT_FLUENT_PARAMETERS", "PARAMETERS", where + "-param")
                else:
                    self.note("dontcare:unbounded-int-fluent-parameter")

    def aparam(self, p, where):
        pt = p.type
        self.utype(pt, where)
        if pt.is_bool_type():
            self.req("BOOL_ACTION_PARAMETERS", "PARAMETERS", where)
        elif pt.is_real_type():
            self.req("REAL_ACTION_PARAMETERS", "PARAMETERS", where)
        elif pt.is_int_type():
            if pt.lower_bound is None or pt.upper_bound is None:
                self.req("UNBOUNDED_INT_ACTION_PARAMETERS", "PARAMETERS", where)
            else:
                self.req("BOUNDED_INT_ACTION_PARAMETERS", "PARAMETERS", where)

    def other_param(self, p, where):
        """parameters of things that are not actions (methods, tasks, task-network / scheduling variables): only typing."""
        self.utype(p.type, where)
        if not p.type.is_user_type():
            self.note("dontcare:non-action-parameter-kind:" + where)

    # ---- conditions ----------------------------------------------------------------------------
    def cond(self, e, where):
        seen = set()
        for n in subnodes(e):
            nt = n.node_type
            ft = COND_FEATURE.get(nt)
            if ft is not None and ft not in seen:
                seen.add(ft)
                self.req(ft, "CONDITIONS_KIND", where)
            if nt == OK.IMPLIES or nt == OK.IFF:
                self.note("dontcare:implies-or-iff-as-disjunction")
            if nt == OK.EXISTS or nt == OK.FORALL:
                for v in n.variables():
                    self.utype(v.type, where + "-quantifier-var")

    # ---- effects -------------------------------------------------------------------------------
    def effect(self, e, where):
        if e.is_conditional():
            self.req("CONDITIONAL_EFFECTS", "EFFECTS_KIND", where)
            self.cond(e.condition, where + "-condition")
        if e.is_forall():
            self.req("FORALL_EFFECTS", "EFFECTS_KIND", where)
            for v in e.forall:
                self.utype(v.type, where + "-forall-var")
        if e.is_increase():
            self.req("INCREASE_EFFECTS", "EFFECTS_KIND", where)
            if has_fluent(e.value):
                self.note("dontcare:fluent-in-increase-or-decrease-value")
        elif e.is_decrease():
            self.req("DECREASE_EFFECTS", "EFFECTS_KIND", where)
            if has_fluent(e.value):
                self.note("dontcare:fluent-in-increase-or-decrease-value")
        elif e.is_continuous_increase():
            self.req("INCREASE_CONTINUOUS_EFFECTS", "EFFECTS_KIND", where)
        elif e.is_continuous_decrease():
            self.req("DECREASE_CONTINUOUS_EFFECTS", "EFFECTS_KIND", where)
        elif e.is_assignment():
            if has_fluent(e.value):
                tgt = e.fluent
                ft = tgt.type
                if ft.is_bool_type():
                    k = "BOOLEAN"
                elif ft.is_user_type():
                    k = "OBJECT"
                else:
                    k = "NUMERIC"
                self.req(
                    (f"FLUENTS_IN_{k}_ASSIGNMENTS", f"STATIC_FLUENTS_IN_{k}_ASSIGNMENTS"),
                    "ASSIGNMENTS",
                    where + "-value",
                )

    def duration(self, d, where):
        if has_fluent(d.lower) or has_fluent(d.upper):
            self.req(("FLUENTS_IN_DURATIONS", "STATIC_FLUENTS_IN_DURATIONS"), "EXPRESSION_DURATION", where)

    # ---- actions -------------------------------------------------------------------------------
    def action(self, a, prefix=""):
        from unified_planning.model import InstantaneousAction, DurativeAction
        from unified_planning.model.contingent import SensingAction

        if isinstance(a, InstantaneousAction):
            w = "sensing" if isinstance(a, SensingAction) else "action"
            for p in a.parameters:
                self.aparam(p, prefix + w + "-param")
            for c in a.preconditions:
                self.cond(c, prefix + w + "-precondition")
            for e in a.effects:
                self.effect(e, prefix + w + "-effect")
        elif isinstance(a, DurativeAction):
            for p in a.parameters:
                self.aparam(p, prefix + "durative-param")
            self.duration(a.duration, prefix + "durative-duration")
            for _, cl in a.conditions.items():
                for c in cl:
                    self.cond(c, prefix + "durative-condition")
            for _, el in a.effects.items():
                for e in el:
                    self.effect(e, prefix + "durative-effect")
            for _, el in a.continuous_effects.items():
                for e in el:
                    self.effect(e, prefix + "durative-continuous-effect")
        else:
            self.note("dontcare:unknown-action-class")

    # ---- initial state -------------------------------------------------------------------------
    def domain_size(self, t):
        if t.is_bool_type():
            return 2
        if t.is_user_type():
            n = 0
            for o in self.pb.all_objects:
                x = o.type
                while x is not None:
                    if x == t:
                        n += 1
                        break
                    x = x.father
            return n
        if t.is_int_type() and t.lower_bound is not None and t.upper_bound is not None:
            return t.upper_bound - t.lower_bound + 1
        return None

    def undefined_initial(self, hidden=frozenset()):
        pb = self.pb
        expl = {}
        for fe in pb.explicit_initial_values:
            if fe.node_type == OK.FLUENT_EXP:
                expl.setdefault(fe.fluent(), set()).add(fe)
        defaults = pb.fluents_defaults
        for f in pb.fluents:
            if f in defaults:
                continue
            n = 1
            for p in f.signature:
                d = self.domain_size(p.type)
                if d is None:
                    n = None
                    break
                n *= d
            if n is None:
                self.note("dontcare:initial-state-of-fluent-with-infinite-signature")
                continue
            have = len(expl.get(f, ()))
            if have >= n:
                continue
            if f in hidden:
                self.note("dontcare:hidden-fluent-without-initial-value")
                continue
            how = "none-set" if have == 0 else "partially-set"
            if f.type.is_int_type() or f.type.is_real_type():
                self.req("UNDEFINED_INITIAL_NUMERIC", "INITIAL_STATE", "initial-state-" + how)
            else:
                self.req("UNDEFINED_INITIAL_SYMBOLIC", "INITIAL_STATE", "initial-state-" + how)

    # ---- metrics -------------------------------------------------------------------------------
    def metrics(self):
        from unified_planning.model import metrics as M

        for m in self.pb.quality_metrics:
            if isinstance(m, M.MinimizeActionCosts):
                self.req("ACTIONS_COST", "QUALITY_METRICS", "metric")
                costs = [c for c in m.costs.values() if c is not None]
                if m.default is not None:
                    costs.append(m.default)
                if costs:
                    self.req(
                        ("INT_NUMBERS_IN_ACTIONS_COST", "REAL_NUMBERS_IN_ACTIONS_COST"), "ACTIONS_COST_KIND", "metric-action-cost"
                    )
                for c in costs:
                    if has_fluent(c):
                        self.req(
                            ("FLUENTS_IN_ACTIONS_COST", "STATIC_FLUENTS_IN_ACTIONS_COST"),
                            "ACTIONS_COST_KIND",
                            "metric-action-cost",
                        )
                    self.cond(c, "metric-action-cost")
            elif isinstance(m, (M.MinimizeExpressionOnFinalState, M.MaximizeExpressionOnFinalState)):
                self.req("FINAL_VALUE", "QUALITY_METRICS", "metric")
                self.cond(m.expression, "metric-final-value")
            elif isinstance(m, M.MinimizeMakespan):
                self.req("MAKESPAN", "QUALITY_METRICS", "metric")
            elif isinstance(m, M.MinimizeSequentialPlanLength):
                self.req("PLAN_LENGTH", "QUALITY_METRICS", "metric")
            elif isinstance(m, M.Oversubscription):
                self.req("OVERSUBSCRIPTION", "QUALITY_METRICS", "metric")
                if m.goals:
                    self.req(
                        ("INT_NUMBERS_IN_OVERSUBSCRIPTION", "REAL_NUMBERS_IN_OVERSUBSCRIPTION"),
                        "OVERSUBSCRIPTION_KIND",
                        "metric-oversubscription",
                    )
                for g in m.goals:
                    self.cond(g, "oversubscription-goal")
            elif isinstance(m, M.TemporalOversubscription):
                self.req("TEMPORAL_OVERSUBSCRIPTION", "QUALITY_METRICS", "metric")
                if m.goals:
                    self.req(
                        ("INT_NUMBERS_IN_OVERSUBSCRIPTION", "REAL_NUMBERS_IN_OVERSUBSCRIPTION"),
                        "OVERSUBSCRIPTION_KIND",
                        "metric-oversubscription",
                    )
                for _, g in m.goals:
                    self.cond(g, "temporal-oversubscription-goal")
            else:
                self.note("dontcare:unknown-metric-class")

    # ---- trajectory constraints ----------------------------------------------------------------
    def constraints(self):
        for tc in self.pb.trajectory_constraints:
            ops = {n.node_type for n in subnodes(tc)}
            if tc.node_type == OK.ALWAYS:
                self.req("STATE_INVARIANTS", "CONSTRAINTS_KIND", "state-invariant")
                self.cond(tc, "state-invariant")
            elif ops & {OK.SOMETIME, OK.SOMETIME_BEFORE, OK.SOMETIME_AFTER, OK.AT_MOST_ONCE}:
                self.req("TRAJECTORY_CONSTRAINTS", "CONSTRAINTS_KIND", "trajectory-constraint")
                self.cond(tc, "trajectory-constraint")
            elif OK.ALWAYS in ops:
                # And / Forall over Always only: Problem.state_invariants lists them, the kind may call them either way
                self.req(
                    ("STATE_INVARIANTS", "TRAJECTORY_CONSTRAINTS"), "CONSTRAINTS_KIND", "wrapped-state-invariant", label="STATE_INVARIANTS"
                )
                self.cond(tc, "wrapped-state-invariant")
            else:
                self.note("dontcare:trajectory-constraint-without-temporal-operator")

    # ---- problem classes -----------------------------------------------------------------------
    def common_problem(self):
        """Everything a unified_planning.model.Problem (and its HTN / contingent subclasses) can contain."""
        pb = self.pb
        from unified_planning.model import metrics as M

        in_dur_cost = set()
        for a in pb.actions:
            d = getattr(a, "duration", None)
            if d is not None:
                in_dur_cost |= fluents_of(d.lower) | fluents_of(d.upper)
        for m in pb.quality_metrics:
            if isinstance(m, M.MinimizeActionCosts):
                for c in list(m.costs.values()) + [m.default]:
                    if c is not None:
                        in_dur_cost |= fluents_of(c)
        for f in pb.fluents:
            self.fluent(f, "fluent", f in in_dur_cost)
        for o in pb.all_objects:
            self.utype(o.type, "object")
        for a in pb.actions:
            self.action(a)
        for ev in pb.events:
            for p in ev.parameters:
                self.aparam(p, "event-param")
            for c in ev.preconditions:
                self.cond(c, "event-precondition")
            for e in ev.effects:
                self.effect(e, "event-effect")
        for pr in pb.processes:
            for p in pr.parameters:
                self.aparam(p, "process-param")
            for c in pr.preconditions:
                self.cond(c, "process-precondition")
            for e in pr.effects:
                self.effect(e, "process-effect")
        te = False
        for _, el in pb.timed_effects.items():
            for e in el:
                te = True
                self.effect(e, "timed-effect")
        if te:
            self.req("TIMED_EFFECTS", "TIME", "timed-effect")
        tg = False
        for _, gl in pb.timed_goals.items():
            for g in gl:
                tg = True
                self.cond(g, "timed-goal")
        if tg:
            self.req("TIMED_GOALS", "TIME", "timed-goal")
        for g in pb.goals:
            self.cond(g, "goal")
        self.constraints()
        self.metrics()

    def run(self):
        pb, pc = self.pb, self.pc
        if pc in ("prob", "htn", "cont"):
            self.common_problem()
            hidden = frozenset()
            if pc == "cont":
                hs = set()
                for hf in pb.hidden_fluents:
                    x = hf.arg(0) if hf.node_type == OK.NOT else hf
                    if x.node_type == OK.FLUENT_EXP:
                        hs.add(x.fluent())
                hidden = frozenset(hs)
            self.undefined_initial(hidden)
            if pc == "htn":
                for t in pb.tasks:
                    for p in t.parameters:
                        self.other_param(p, "task-param")
                for v in pb.task_network.variables:
                    self.other_param(v, "task-network-variable")
                for c in pb.task_network.constraints:
                    if has_timing(c):
                        self.note("dontcare:temporal-task-network-constraint")
                    else:
                        self.cond(c, "task-network-constraint")
                for m in pb.methods:
                    for p in m.parameters:
                        self.other_param(p, "method-param")
                    for c in m.preconditions:
                        self.cond(c, "method-precondition")
                    for c in m.constraints:
                        if has_timing(c):
                            self.note("dontcare:temporal-task-network-constraint")
                        else:
                            self.cond(c, "method-constraint")
        elif pc == "ma":
            for f in pb.ma_environment.fluents:
                self.fluent(f, "env-fluent")
            for ag in pb.agents:
                for f in ag.fluents:
                    self.fluent(f, "agent-fluent")
                for a in ag.actions:
                    self.action(a)
                for g in ag.public_goals:
                    self.cond(g, "agent-public-goal")
                for g in ag.private_goals:
                    self.cond(g, "agent-private-goal")
            for o in pb.all_objects:
                self.utype(o.type, "object")
            for g in pb.goals:
                self.cond(g, "goal")
            # a multi-agent problem whose initial state leaves a fluent undefined cannot even list its initial_values
            # (UPProblemDefinitionError): not a feature of a well-formed problem, not judged
        elif pc == "sched":
            for f in pb.fluents:
                self.fluent(f, "fluent")
            for o in pb.all_objects:
                self.utype(o.type, "object")
            for v in pb.base_variables:
                self.other_param(v, "base-variable")
            bc = False
            for _, c in pb.base_conditions:
                bc = True
                self.cond(c, "base-condition")
            if bc:
                self.req("TIMED_GOALS", "TIME", "base-condition")
            be = False
            for _, e in pb.base_effects:
                be = True
                self.effect(e, "base-effect")
            if be:
                self.req("TIMED_EFFECTS", "TIME", "base-effect")
            for c, scope in pb.base_scoped_constraints:
                self.cond(c, "base-constraint")
            for act in pb.activities:
                for p in act.parameters:
                    self.aparam(p, "activity-param")
                self.duration(act.duration, "activity-duration")
                for _, cl in act.conditions.items():
                    for c in cl:
                        self.cond(c, "activity-condition")
                for _, el in act.effects.items():
                    for e in el:
                        self.effect(e, "activity-effect")
                for c, scope in act.scoped_constraints:
                    self.cond(c, "activity-constraint")
            self.metrics()
            self.undefined_initial()
        return self.reqs, self.notes


def extract(problem):
    """Returns (problem_class, reqs, notes); problem_class None = a class this extractor does not know."""
    pc = problem_class(problem)
    if pc is None:
        return None, [], {}
    reqs, notes = _X(problem, pc).run()
    return pc, reqs, notes


def missing(reqs, features):
    """Requirements not met by the feature set of the computed kind, de-duplicated."""
    out, seen = [], set()
    for alts, label, family, pos in reqs:
        if not any(a in features for a in alts):
            k = (alts, pos)
            if k not in seen:
                seen.add(k)
                out.append((alts, label, family, pos))
    return out

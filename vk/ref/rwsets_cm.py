"""Reference read / write sets of a ground action instance (owner: conformant-meta; C27).

Independent of the library's walkers: structural recursion over FNode accessors, quantifiers expanded over the objects
of the variable's type (own subtype test from evalx), parameters bound to their actual values.

read set  : ground fluents occurring in preconditions, effect conditions, effect values and effect target arguments,
            after folding fluent-free sub-expressions to constants and dropping operands absorbed by a constant
            (`false and f`, `true or f`) - those are not "read" under any reasonable implementation.
write set : ground targets of all (forall-expanded) effects whose condition is not the constant false.
"""
from fractions import Fraction
from itertools import product

from unified_planning.model.operators import OperatorKind as OK

from vk.ref.evalx import Unsupported, const_value, domain_of, norm

_DYN = object()


def _fold(e, params, vs, pb, reads):
    """-> python constant value, or _DYN when the value depends on a fluent (its ground fluents are added to reads)."""
    nt = e.node_type
    if nt in (OK.BOOL_CONSTANT, OK.INT_CONSTANT, OK.REAL_CONSTANT, OK.OBJECT_EXP):
        return const_value(e)
    if nt == OK.PARAM_EXP:
        return params[e.parameter().name]
    if nt == OK.VARIABLE_EXP:
        return vs[e.variable().name]
    if nt == OK.FLUENT_EXP:
        args = []
        for a in e.args:
            sub = set()
            v = _fold(a, params, vs, pb, sub)
            if v is _DYN:
                raise Unsupported("nested fluent in a fluent argument")
            args.append(v)
        reads.add((e.fluent().name, tuple(args)))
        return _DYN
    if nt == OK.NOT:
        v = _fold(e.arg(0), params, vs, pb, reads)
        return _DYN if v is _DYN else (not v)
    if nt in (OK.AND, OK.OR, OK.EXISTS, OK.FORALL, OK.IMPLIES):
        absorbing = nt in (OK.OR, OK.EXISTS, OK.IMPLIES)
        parts = []  # (value, reads)
        if nt in (OK.AND, OK.OR):
            for a in e.args:
                r = set()
                parts.append((_fold(a, params, vs, pb, r), r))
        elif nt == OK.IMPLIES:
            r = set()
            v = _fold(e.arg(0), params, vs, pb, r)
            parts.append((_DYN if v is _DYN else (not v), r))
            r = set()
            parts.append((_fold(e.arg(1), params, vs, pb, r), r))
        else:
            qv = e.variables()
            doms = []
            for v in qv:
                d = domain_of(pb, v.type)
                if d is None:
                    raise Unsupported("quantifier over an infinite type")
                doms.append(d)
            for combo in product(*doms):
                r = set()
                parts.append((_fold(e.arg(0), params, {**vs, **{v.name: c for v, c in zip(qv, combo)}}, pb, r), r))
        if any(v is not _DYN and v == absorbing for v, _ in parts):
            return absorbing
        dyn = False
        for v, r in parts:
            if v is _DYN:
                dyn = True
                reads |= r
        return _DYN if dyn else (not absorbing)
    # every remaining operator is strict in all its arguments
    vals = []
    dyn = False
    for a in e.args:
        v = _fold(a, params, vs, pb, reads)
        if v is _DYN:
            dyn = True
        vals.append(v)
    if dyn:
        return _DYN
    if nt == OK.IFF or nt == OK.EQUALS:
        return vals[0] == vals[1]
    if nt == OK.LE:
        return vals[0] <= vals[1]
    if nt == OK.LT:
        return vals[0] < vals[1]
    if nt == OK.PLUS:
        return norm(sum(vals))
    if nt == OK.MINUS:
        return norm(vals[0] - vals[1])
    if nt == OK.TIMES:
        acc = 1
        for v in vals:
            acc = acc * v
        return norm(acc)
    if nt == OK.DIV:
        if vals[1] == 0:
            raise Unsupported("constant division by zero")
        return norm(Fraction(vals[0]) / Fraction(vals[1]))
    if nt == OK.INTERPRETED_FUNCTION_EXP:
        return _DYN if dyn else e.interpreted_function().function(*vals)
    raise Unsupported(f"operator {nt}")


def _mentions_var(e, names):
    st = [e]
    while st:
        n = st.pop()
        if n.node_type == OK.VARIABLE_EXP and n.variable().name in names:
            return True
        st.extend(n.args)
    return False


def _var_fluents(e, names, params, vs, pb, out):
    """Ground fluents (under the binding vs) of the fluent expressions in e that are addressed through one of the variables `names`."""
    st = [e]
    while st:
        n = st.pop()
        if n.node_type == OK.FLUENT_EXP and any(_mentions_var(a, names) for a in n.args):
            try:
                out.add((n.fluent().name, tuple(_fold(a, params, vs, pb, set()) for a in n.args)))
            except Exception:
                pass
        st.extend(n.args)


def _arith_fluents(e, out, params, pb):
    """Ground fluents (outside quantifiers) whose argument list contains a compound expression, e.g. cell(i + 1)."""
    st = [e]
    while st:
        n = st.pop()
        if n.node_type in (OK.EXISTS, OK.FORALL):
            continue
        if n.node_type == OK.FLUENT_EXP and any(a.args and not a.is_fluent_exp() for a in n.args):
            try:
                out.add((n.fluent().name, tuple(_fold(a, params, {}, pb, set()) for a in n.args)))
            except Exception:
                pass
        st.extend(n.args)


def rw_sets(pb, action, args):
    """-> (reads, writes, info) for the ground instance; sets of (fluent_name, args tuple)."""
    params = {p.name: v for p, v in zip(action.parameters, args)}
    reads, writes = set(), set()
    # forall_reads: ground fluents read by the condition / value of a forall effect through the quantified variable;
    # arith_writes / arith_reads: ground fluents addressed with a compound (arithmetic) argument expression
    info = {"cond_reads": set(), "value_reads": set(), "pre_reads": set(), "quantified": False, "forall_reads": set(), "arith_writes": set(), "arith_reads": set()}
    for c in list(action.preconditions) + [x for eff in action.effects for x in (eff.condition, eff.value)]:
        _arith_fluents(c, info["arith_reads"], params, pb)
    for c in action.preconditions:
        r = set()
        _fold(c, params, {}, pb, r)
        reads |= r
        info["pre_reads"] |= r
    for eff in action.effects:
        vs_list = [{}]
        if eff.forall:
            doms = []
            for v in eff.forall:
                d = domain_of(pb, v.type)
                if d is None:
                    raise Unsupported("forall effect over an infinite type")
                doms.append(d)
            vs_list = [{v.name: c for v, c in zip(eff.forall, combo)} for combo in product(*doms)]
        for vs in vs_list:
            r = set()
            cv = _fold(eff.condition, params, vs, pb, r)
            if cv is not _DYN and cv is False:
                continue
            reads |= r
            info["cond_reads"] |= r
            r = set()
            _fold(eff.value, params, vs, pb, r)
            reads |= r
            info["value_reads"] |= r
            if eff.forall:
                info["quantified"] = True
                through = set()
                for x in (eff.condition, eff.value):
                    _var_fluents(x, {v.name for v in eff.forall}, params, vs, pb, through)
                info["forall_reads"] |= through & (info["cond_reads"] | info["value_reads"])
            targs = []
            for a in eff.fluent.args:
                v = _fold(a, params, vs, pb, set())
                if v is _DYN:
                    raise Unsupported("nested fluent in an effect target")
                targs.append(v)
            key = (eff.fluent.fluent().name, tuple(targs))
            writes.add(key)
            if any(a.args and not a.is_fluent_exp() for a in eff.fluent.args):
                info["arith_writes"].add(key)
            if not eff.is_assignment():
                reads.add(key)  # increase / decrease read their own target
    return reads, writes, info

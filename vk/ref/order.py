"""Reference model of finite precedence relations (oracle of C34; owner: stn-htn-kind).

Elements are arbitrary hashable values, a relation is an iterable of pairs (a, b) meaning "a strictly before b".
No library code is used.

* `closure(elems, pairs)`            – transitive closure as a frozenset of pairs (Warshall).
* `is_acyclic(elems, pairs)`         – no element precedes itself in the closure.
* `count_linear_extensions(elems, pairs)` – number of total orderings of *all* elems compatible with pairs
                                       (subset DP; 0 when cyclic).
* `unique_extension(elems, pairs)`   – the ordering when the count is exactly 1, else None. Computed by brute-force
                                       filtering of permutations for <= 6 elements (independent of the DP) and
                                       cross-checked with the DP count.
"""
import itertools


class OracleBug(Exception):
    pass


def closure(elems, pairs):
    elems = list(elems)
    succ = {e: set() for e in elems}
    for a, b in pairs:
        succ.setdefault(a, set()).add(b)
        succ.setdefault(b, set())
    nodes = list(succ)
    for k in nodes:
        for i in nodes:
            if k in succ[i]:
                succ[i] |= succ[k]
    return frozenset((a, b) for a in nodes for b in succ[a])


def is_acyclic(elems, pairs):
    return all(a != b for a, b in closure(elems, pairs))


def count_linear_extensions(elems, pairs):
    elems = list(elems)
    n = len(elems)
    idx = {e: i for i, e in enumerate(elems)}
    pred = [0] * n
    for a, b in pairs:
        if a == b:
            return 0
        pred[idx[b]] |= 1 << idx[a]
    ways = [0] * (1 << n)
    ways[0] = 1
    for mask in range(1 << n):
        w = ways[mask]
        if not w:
            continue
        for i in range(n):
            if not mask & (1 << i) and pred[i] & ~mask == 0:
                ways[mask | (1 << i)] += w
    return ways[(1 << n) - 1]


def linear_extensions_brute(elems, pairs, limit=2):
    """Up to `limit` linear extensions by filtering all permutations (n <= 7)."""
    elems = list(elems)
    pairs = list(pairs)
    out = []
    for perm in itertools.permutations(elems):
        pos = {e: i for i, e in enumerate(perm)}
        if all(pos[a] < pos[b] for a, b in pairs):
            out.append(list(perm))
            if len(out) >= limit:
                break
    return out


def unique_extension(elems, pairs):
    elems = list(elems)
    n = count_linear_extensions(elems, pairs)
    if len(elems) <= 6:
        ext = linear_extensions_brute(elems, pairs, 2)
        if min(n, 2) != len(ext):
            raise OracleBug(f"DP counts {n} extensions, brute force finds {len(ext)}(+): {elems!r} {list(pairs)!r}")
        return ext[0] if n == 1 else None
    if n != 1:
        return None
    # chain: sort by number of predecessors in the closure
    cl = closure(elems, pairs)
    return sorted(elems, key=lambda e: sum(1 for a, b in cl if b == e))

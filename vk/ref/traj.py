"""PDDL3 finite-trace semantics of trajectory constraints over the state sequence s0..sn of a sequential plan (DESIGN §3.3).

Owner: C06/C07 (agent "compilers"); reusable by any check that validates plans of problems with trajectory constraints.
Oracle code: only read-only accessors of FNode are used, expressions are evaluated by vk.ref.evalx.

Semantics (Gerevini & Long, "Plan constraints and preferences in PDDL3", over the finite trace s0..sn):
    always phi              : for all i            phi(si)
    sometime phi            : exists i             phi(si)
    at-most-once phi        : for all i            phi(si) -> exists j>=i . (for all i<=k<=j phi(sk)) and (for all k>j not phi(sk))
                              (phi is true on at most one contiguous block of the trace)
    sometime-after phi psi  : for all i            phi(si) -> exists j>=i . psi(sj)
    sometime-before phi psi : for all i            phi(si) -> exists j<i  . psi(sj)
    and(c1..cm)             : all ci;   forall(vars, c) : c for every binding of vars over the objects of their types

API
    status(problem, states, constraints=None) -> True | False | None
        None = don't-care: some phi/psi reads an undefined fluent in some state (its strict value is undefined), which
        neither the property statements nor PDDL3 fix.  constraints defaults to problem.trajectory_constraints.
    explain(problem, states, constraints=None) -> list of (constraint string, verdict) for the constraints not True.
    constraint_status(problem, c, states, vars=None) -> True | False | None       (one constraint)
    atoms(problem, constraints=None) -> list of (kind, [phi, psi?]) leaves, kind in always/sometime/amo/sb/sa
"""
from itertools import product

from unified_planning.model.operators import OperatorKind as OK

from vk.ref.evalx import UNDEF, Interp, Unsupported, domain_of, ev

_KIND = {
    OK.ALWAYS: "always",
    OK.SOMETIME: "sometime",
    OK.AT_MOST_ONCE: "amo",
    OK.SOMETIME_BEFORE: "sb",
    OK.SOMETIME_AFTER: "sa",
}


def _truth(problem, e, states, vars):
    """List of strict truth values of e along the trace; None as soon as one is undefined."""
    out = []
    for s in states:
        v = ev(e, Interp(problem, s, None, vars), "strict")
        if v is UNDEF:
            return None
        out.append(bool(v))
    return out


def constraint_status(problem, c, states, vars=None):
    nt = c.node_type
    if nt == OK.BOOL_CONSTANT:
        return bool(c.constant_value())
    if nt == OK.AND:
        res = True
        for a in c.args:
            r = constraint_status(problem, a, states, vars)
            if r is False:
                return False  # one definitely violated conjunct decides, whatever the others read
            if r is None:
                res = None
        return res
    if nt == OK.FORALL:
        vs = c.variables()
        doms = []
        for v in vs:
            d = domain_of(problem, v.type)
            if d is None:
                raise Unsupported("trajectory constraint quantifies over an infinite type")
            doms.append(d)
        res = True
        for combo in product(*doms):
            b = dict(vars or {})
            b.update({v.name: x for v, x in zip(vs, combo)})
            r = constraint_status(problem, c.arg(0), states, b)
            if r is False:
                return False
            if r is None:
                res = None
        return res
    kind = _KIND.get(nt)
    if kind is None:
        raise Unsupported(f"not a trajectory constraint: {c}")
    phi = _truth(problem, c.arg(0), states, vars)
    if phi is None:
        return None
    n = len(states)
    if kind == "always":
        return all(phi)
    if kind == "sometime":
        return any(phi)
    if kind == "amo":
        blocks = 0
        prev = False
        for x in phi:
            if x and not prev:
                blocks += 1
            prev = x
        return blocks <= 1
    psi = _truth(problem, c.arg(1), states, vars)
    if psi is None:
        return None
    if kind == "sa":
        for i in range(n):
            if phi[i] and not any(psi[i:]):
                return False
        return True
    if kind == "sb":
        for i in range(n):
            if phi[i] and not any(psi[:i]):
                return False
        return True
    raise Unsupported(kind)


def status(problem, states, constraints=None):
    cs = problem.trajectory_constraints if constraints is None else constraints
    res = True
    for c in cs:
        r = constraint_status(problem, c, states)
        if r is False:
            return False
        if r is None:
            res = None
    return res


def explain(problem, states, constraints=None):
    cs = problem.trajectory_constraints if constraints is None else constraints
    out = []
    for c in cs:
        r = constraint_status(problem, c, states)
        if r is not True:
            out.append((str(c), r))
    return out


def atoms(problem, constraints=None):
    """Leaves of the constraints: [(kind, [phi(, psi)])] (and/forall wrappers stripped; quantified variables stay free)."""
    cs = list(problem.trajectory_constraints if constraints is None else constraints)
    out = []
    while cs:
        c = cs.pop()
        nt = c.node_type
        if nt in (OK.AND, OK.FORALL):
            cs.extend(c.args)
        elif nt in _KIND:
            out.append((_KIND[nt], list(c.args)))
    return out

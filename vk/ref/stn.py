"""Reference model of a simple temporal network (oracle of C25; owner: stn-htn-kind).

A constraint is a triple (x, y, b) meaning  t[x] - t[y] <= b.  Events are arbitrary hashable values.
Nothing here imports the code under test; only `fractions`/ints are used, all arithmetic is exact.

* `consistent_fw(events, cons)`      – Floyd–Warshall on the constraint graph: consistent iff no negative cycle.
* `least_solution(events, cons)`     – least non-negative solution by longest-path fixpoint iteration (Bellman–Ford
                                        style, independent of the Floyd–Warshall code); None iff inconsistent.
* `solve(events, cons)`              – both of the above, cross-checked against each other (an internal disagreement
                                        raises OracleBug, which the harness reports as a harness error, never as "held").
* `satisfies(model, cons)`           – direct arithmetic check of every inserted constraint.
* `brute_least_int(events, cons, hi)`– brute force over the integer grid {0..hi}^n (oracle self-validation on tiny cases).
"""
import itertools


class OracleBug(Exception):
    pass


def tightest(cons):
    """(x, y) -> least bound, in first-insertion order of the pairs."""
    m = {}
    for x, y, b in cons:
        k = (x, y)
        if k not in m or b < m[k]:
            m[k] = b
    return m


def consistent_fw(events, cons):
    ev = list(events)
    idx = {e: i for i, e in enumerate(ev)}
    n = len(ev)
    INF = None
    d = [[INF] * n for _ in range(n)]
    for i in range(n):
        d[i][i] = 0
    for (x, y), b in tightest(cons).items():
        i, j = idx[x], idx[y]
        if d[i][j] is INF or b < d[i][j]:
            d[i][j] = b
    for k in range(n):
        dk = d[k]
        for i in range(n):
            dik = d[i][k]
            if dik is INF:
                continue
            di = d[i]
            for j in range(n):
                dkj = dk[j]
                if dkj is INF:
                    continue
                s = dik + dkj
                if di[j] is INF or s < di[j]:
                    di[j] = s
    return all(d[i][i] >= 0 for i in range(n)), d, idx


def least_solution(events, cons):
    """Least t >= 0 with t[x] - t[y] <= b for all constraints, i.e. t[y] >= t[x] - b: Kleene iteration from 0.
    Returns None when the iteration does not stabilise within |events| rounds (=> positive cycle => inconsistent)."""
    ev = list(events)
    t = {e: 0 for e in ev}
    edges = [(x, y, b) for (x, y), b in tightest(cons).items()]
    for _ in range(len(ev) + 1):
        changed = False
        for x, y, b in edges:
            v = t[x] - b
            if v > t[y]:
                t[y] = v
                changed = True
        if not changed:
            return t
    return None


def satisfies(model, cons):
    """First violated constraint or None."""
    for x, y, b in cons:
        if not (model[x] - model[y] <= b):
            return (x, y, b)
    return None


def solve(events, cons):
    """-> (consistent: bool, least model: dict | None)."""
    ok, d, idx = consistent_fw(events, cons)
    t = least_solution(events, cons)
    if ok != (t is not None):
        raise OracleBug(f"Floyd-Warshall says consistent={ok}, fixpoint iteration says {t is not None}: {cons!r}")
    if not ok:
        return False, None
    # closed form from the distance matrix: t[y] = max(0, max_x -D[x][y])
    for y in idx:
        best = 0
        for x in idx:
            dxy = d[idx[x]][idx[y]]
            if dxy is not None and -dxy > best:
                best = -dxy
        if best != t[y]:
            raise OracleBug(f"least solution mismatch inside the oracle at {y!r}: {best} vs {t[y]}: {cons!r}")
    bad = satisfies(t, cons)
    if bad is not None:
        raise OracleBug(f"oracle least solution violates {bad!r}")
    return True, t


def brute_least_int(events, cons, hi):
    """Brute force over {0..hi}^n: (exists solution, componentwise-least solution or None).
    Only meaningful for integer bounds; the least solution of a consistent integer STN is integral and bounded by
    (n-1)*max|b|, so `hi` must be at least that."""
    ev = list(events)
    sols = []
    for vals in itertools.product(range(hi + 1), repeat=len(ev)):
        m = dict(zip(ev, vals))
        if satisfies(m, cons) is None:
            sols.append(vals)
    if not sols:
        return False, None
    least = tuple(min(s[i] for s in sols) for i in range(len(ev)))
    if least not in sols:
        raise OracleBug("componentwise minimum of the solutions is not a solution")
    return True, dict(zip(ev, least))

"""Bounded exhaustive search over the reference sequential semantics vk.ref.seqsem.

Owner: conformant-meta (C27, C30, C31).  Pure oracle code: only vk.ref.seqsem / vk.ref.evalx are used, never the
library's simulator, grounder or validators.

Space      : memoised transition system of one problem (states interned by seqsem.freeze, transitions cached)
explore    : BFS over the whole reachable space (or up to a depth), with a state cap; records completeness
plans_upto : all executable action sequences of length <= k (optionally: ending in a goal state, without repeated
             ground instances), with a node cap
best_value : optimum of a state function over the explored states
"""
from collections import deque

from vk.ref import seqsem
from vk.ref.seqsem import OKAY, INAPP, DONTCARE


class Space:
    def __init__(self, pb, insts=None, s0=None):
        self.pb = pb
        self.insts = list(insts) if insts is not None else seqsem.all_instances(pb)
        self.inst_index = {(a.name, tuple(args)): i for i, (a, args) in enumerate(self.insts)}
        self.states = []
        self.index = {}
        self.trans = {}
        self._goal = {}
        self.dontcare_transitions = 0
        self.dontcare_goals = 0
        self.succ_calls = 0
        self.root = self.add(seqsem.initial_state(pb) if s0 is None else s0)

    # -- states --------------------------------------------------------------------------------
    def add(self, s):
        k = seqsem.freeze(s)
        i = self.index.get(k)
        if i is None:
            i = len(self.states)
            self.index[k] = i
            self.states.append(s)
        return i

    def inst_of(self, name, args):
        return self.inst_index.get((name, tuple(args)))

    # -- transitions ---------------------------------------------------------------------------
    def step(self, i, ii):
        """-> (status, successor index | None, reason, info)"""
        key = (i, ii)
        t = self.trans.get(key)
        if t is None:
            a, args = self.insts[ii]
            r = seqsem.succ(self.pb, self.states[i], a, args)
            self.succ_calls += 1
            if r.status == OKAY:
                t = (OKAY, self.add(r.state), None, r.info)
            else:
                if r.status == DONTCARE:
                    self.dontcare_transitions += 1
                t = (r.status, None, r.reason, r.info)
            self.trans[key] = t
        return t

    def goal(self, i):
        g = self._goal.get(i, "?")
        if g == "?":
            g = seqsem.goal_status(self.pb, self.states[i])
            if g is None:
                self.dontcare_goals += 1
            self._goal[i] = g
        return g

    def run(self, seq, start=None):
        """seq: list of instance indexes. -> (status, list of state indexes, failing position, reason)"""
        i = self.root if start is None else start
        path = [i]
        for pos, ii in enumerate(seq):
            st, j, reason, _ = self.step(i, ii)
            if st != OKAY:
                return st, path, pos, reason
            i = j
            path.append(i)
        return OKAY, path, len(seq), None

    def steps(self, seq):
        return [[self.insts[ii][0].name, list(self.insts[ii][1])] for ii in seq]


class Explored:
    __slots__ = ("space", "order", "depth", "parent", "complete", "capped", "depth_limited")

    def __init__(self, space):
        self.space = space
        self.order = []  # state indexes in BFS order
        self.depth = {}
        self.parent = {}
        self.complete = False  # the whole reachable space was enumerated (no cap, no depth limit cut anything)
        self.capped = False
        self.depth_limited = False

    def path_to(self, i):
        seq = []
        while self.parent.get(i) is not None:
            p, ii = self.parent[i]
            seq.append(ii)
            i = p
        seq.reverse()
        return seq


def explore(space, max_states=5000, max_depth=None, stop_at=None, start=None):
    """BFS from the root.  stop_at(i) -> True stops the search as soon as state i is *dequeued* (shortest path first).
    Returns (Explored, stop state | None)."""
    ex = Explored(space)
    root = space.root if start is None else start
    ex.depth[root] = 0
    ex.parent[root] = None
    q = deque([root])
    n_inst = len(space.insts)
    while q:
        i = q.popleft()
        ex.order.append(i)
        if stop_at is not None and stop_at(i):
            return ex, i
        d = ex.depth[i]
        if max_depth is not None and d >= max_depth:
            # is there anything beyond?  (only matters for the completeness flag)
            if not ex.depth_limited:
                for ii in range(n_inst):
                    st, j, _, _ = space.step(i, ii)
                    if st == OKAY and j not in ex.depth:
                        ex.depth_limited = True
                        break
            continue
        for ii in range(n_inst):
            st, j, _, _ = space.step(i, ii)
            if st != OKAY or j in ex.depth:
                continue
            if len(ex.depth) >= max_states:
                ex.capped = True
                continue
            ex.depth[j] = d + 1
            ex.parent[j] = (i, ii)
            q.append(j)
    ex.complete = not ex.capped and not ex.depth_limited
    return ex, None


def plans_upto(space, k, node_cap=20000, goal_only=True, distinct=False, min_len=0):
    """All executable instance-index sequences of length <= k from the root (DFS in instance order).
    goal_only: only sequences whose final state satisfies the goals (reference goal_status is True).
    distinct : no ground instance occurs twice.
    Returns (list of sequences, exhausted: bool)."""
    out = []
    nodes = [0]
    n_inst = len(space.insts)
    exhausted = [True]

    def rec(i, seq, used):
        if nodes[0] >= node_cap:
            exhausted[0] = False
            return
        nodes[0] += 1
        if len(seq) >= min_len and (not goal_only or space.goal(i) is True):
            out.append(list(seq))
        if len(seq) >= k:
            return
        for ii in range(n_inst):
            if distinct and ii in used:
                continue
            st, j, _, _ = space.step(i, ii)
            if st != OKAY:
                continue
            seq.append(ii)
            if distinct:
                used.add(ii)
            rec(j, seq, used)
            seq.pop()
            if distinct:
                used.discard(ii)

    rec(space.root, [], set())
    return out, exhausted[0]


def best_value(ex, value, accept=None):
    """max of value(state) over explored states accepted by accept(state index). -> (best | None, argmax index | None)"""
    best, arg = None, None
    for i in ex.order:
        if accept is not None and not accept(i):
            continue
        v = value(ex.space.states[i])
        if v is None:
            continue
        if best is None or v > best:
            best, arg = v, i
    return best, arg

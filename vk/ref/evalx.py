"""Reference evaluation of FNode expressions under an interpretation (oracle; does not use any library walker).

Values: bool | int | Fraction | str (object name) | UNDEF.
Modes: "strict" – any read of a missing fluent value makes the whole expression UNDEF;
       "kleene" – three-valued connectives / quantifiers (true or undef = true, false and undef = false).
Only the read-only accessors of FNode / Fluent / Type / Object are used.
"""
from fractions import Fraction
from itertools import product

from unified_planning.model.operators import OperatorKind as OK


class _Undef:
    def __repr__(self):
        return "UNDEF"


UNDEF = _Undef()


class Unsupported(Exception):
    pass


def is_subtype(t, sup) -> bool:
    """user type t is sup or a descendant (own walk over the father chain)."""
    while t is not None:
        if t == sup:
            return True
        t = t.father
    return False


def objects_of(problem, tp):
    """Names of the objects of user type tp incl. subtypes, in declaration order (own subtype test)."""
    return [o.name for o in problem.all_objects if is_subtype(o.type, tp)]


def domain_of(problem, tp, int_cap=12):
    """Finite domain of a type as python values, or None if infinite/too large."""
    if tp.is_bool_type():
        return [False, True]
    if tp.is_user_type():
        return objects_of(problem, tp)
    if tp.is_int_type():
        lb, ub = tp.lower_bound, tp.upper_bound
        if lb is not None and ub is not None and ub - lb + 1 <= int_cap:
            return list(range(int(lb), int(ub) + 1))
    return None


def norm(v):
    """Canonical python value: Fractions with denominator 1 become ints."""
    if isinstance(v, Fraction) and v.denominator == 1:
        return int(v)
    return v


def const_value(node):
    """Python value of a constant / object FNode."""
    nt = node.node_type
    if nt == OK.BOOL_CONSTANT:
        return bool(node.constant_value())
    if nt == OK.INT_CONSTANT:
        return int(node.constant_value())
    if nt == OK.REAL_CONSTANT:
        return norm(Fraction(node.constant_value()))
    if nt == OK.OBJECT_EXP:
        return node.object().name
    raise Unsupported(f"not a constant: {node}")


class Interp:
    """fluents: dict (fluent_name, args tuple) -> value (missing = undefined);
    agent-qualified fluents use key (agent_name, fluent_name, args)."""

    __slots__ = ("problem", "fluents", "params", "vars", "agent", "reads")

    def __init__(self, problem, fluents, params=None, vars=None, agent=None):
        self.problem = problem
        self.fluents = fluents
        self.params = params or {}
        self.vars = vars or {}
        self.agent = agent
        self.reads = None  # optional set collecting the ground fluents read

    def with_vars(self, extra):
        i = Interp(self.problem, self.fluents, self.params, {**self.vars, **extra}, self.agent)
        i.reads = self.reads
        return i

    def with_params(self, params):
        i = Interp(self.problem, self.fluents, params, self.vars, self.agent)
        i.reads = self.reads
        return i


def ev(e, I: Interp, mode="strict"):
    nt = e.node_type
    if nt == OK.BOOL_CONSTANT or nt == OK.INT_CONSTANT or nt == OK.REAL_CONSTANT or nt == OK.OBJECT_EXP:
        return const_value(e)
    if nt == OK.PARAM_EXP:
        n = e.parameter().name
        if n not in I.params:
            raise Unsupported(f"unbound parameter {n}")
        return I.params[n]
    if nt == OK.VARIABLE_EXP:
        n = e.variable().name
        if n not in I.vars:
            raise Unsupported(f"unbound variable {n}")
        return I.vars[n]
    if nt == OK.FLUENT_EXP:
        args = []
        for a in e.args:
            v = ev(a, I, mode)
            if v is UNDEF:
                return UNDEF
            args.append(v)
        key = (e.fluent().name, tuple(args))
        if I.agent is not None:
            akey = (I.agent, e.fluent().name, tuple(args))
            if akey in I.fluents or not key in I.fluents:
                key = akey
        if I.reads is not None:
            I.reads.add(key)
        return I.fluents.get(key, UNDEF)
    if nt == OK.DOT:
        J = Interp(I.problem, I.fluents, I.params, I.vars, e.agent())
        J.reads = I.reads
        return ev(e.arg(0), J, mode)
    if nt == OK.INTERPRETED_FUNCTION_EXP:
        args = []
        for a in e.args:
            v = ev(a, I, mode)
            if v is UNDEF:
                return UNDEF
            args.append(v)
        ifun = e.interpreted_function()
        # user-typed arguments / results travel as library Objects on the callable's side and as names on ours
        call_args = []
        for a, p in zip(args, ifun.signature):
            call_args.append(I.problem.object(a) if p.type.is_user_type() and isinstance(a, str) else a)
        r = ifun.function(*call_args)
        if isinstance(r, float):
            r = Fraction(r)
        if ifun.return_type.is_user_type() and hasattr(r, "name"):
            return r.name
        return norm(r) if not isinstance(r, bool) else r
    if nt == OK.NOT:
        v = ev(e.arg(0), I, mode)
        return UNDEF if v is UNDEF else (not v)
    if nt == OK.AND or nt == OK.OR:
        absorbing = nt == OK.OR
        saw_undef = False
        saw_abs = False
        for a in e.args:
            v = ev(a, I, mode)
            if v is UNDEF:
                saw_undef = True
            elif v == absorbing:
                saw_abs = True
        if mode == "strict":
            if saw_undef:
                return UNDEF
            return absorbing if saw_abs else (not absorbing)
        if saw_abs:
            return absorbing
        if saw_undef:
            return UNDEF
        return not absorbing
    if nt == OK.IMPLIES:
        a, b = ev(e.arg(0), I, mode), ev(e.arg(1), I, mode)
        if mode == "strict":
            if a is UNDEF or b is UNDEF:
                return UNDEF
            return (not a) or b
        if a is False or b is True:
            return True
        if a is UNDEF or b is UNDEF:
            return UNDEF
        return (not a) or b
    if nt == OK.IFF:
        a, b = ev(e.arg(0), I, mode), ev(e.arg(1), I, mode)
        if a is UNDEF or b is UNDEF:
            return UNDEF
        return a == b
    if nt == OK.EXISTS or nt == OK.FORALL:
        absorbing = nt == OK.EXISTS
        vs = e.variables()
        doms = []
        for v in vs:
            d = domain_of(I.problem, v.type)
            if d is None:
                raise Unsupported(f"quantifier over infinite type {v.type}")
            doms.append(d)
        saw_undef = saw_abs = False
        for combo in product(*doms):
            val = ev(e.arg(0), I.with_vars({v.name: c for v, c in zip(vs, combo)}), mode)
            if val is UNDEF:
                saw_undef = True
            elif val == absorbing:
                saw_abs = True
        if mode == "strict":
            if saw_undef:
                return UNDEF
            return absorbing if saw_abs else (not absorbing)
        if saw_abs:
            return absorbing
        if saw_undef:
            return UNDEF
        return not absorbing
    if nt == OK.EQUALS:
        a, b = ev(e.arg(0), I, mode), ev(e.arg(1), I, mode)
        if a is UNDEF or b is UNDEF:
            return UNDEF
        return a == b
    if nt == OK.LE or nt == OK.LT:
        a, b = ev(e.arg(0), I, mode), ev(e.arg(1), I, mode)
        if a is UNDEF or b is UNDEF:
            return UNDEF
        return a <= b if nt == OK.LE else a < b
    if nt == OK.PLUS or nt == OK.TIMES:
        acc = 0 if nt == OK.PLUS else 1
        und = False
        for a in e.args:
            v = ev(a, I, mode)
            if v is UNDEF:
                und = True
            elif nt == OK.PLUS:
                acc = acc + v
            else:
                acc = acc * v
        return UNDEF if und else norm(acc)
    if nt == OK.MINUS:
        a, b = ev(e.arg(0), I, mode), ev(e.arg(1), I, mode)
        if a is UNDEF or b is UNDEF:
            return UNDEF
        return norm(a - b)
    if nt == OK.DIV:
        a, b = ev(e.arg(0), I, mode), ev(e.arg(1), I, mode)
        if a is UNDEF or b is UNDEF:
            return UNDEF
        if b == 0:
            return UNDEF
        return norm(Fraction(a) / Fraction(b))
    raise Unsupported(f"operator {nt}")


def ev2(e, I):
    """(strict value, kleene value)."""
    return ev(e, I, "strict"), ev(e, I, "kleene")


_NUM_SAMPLE = [-3, 0, 1, 2, Fraction(7, 2), 11]


def _key_domain(problem, key):
    """Finite (possibly sampled) domain of a ground-fluent key."""
    try:
        if len(key) == 3:
            fl = problem.agent(key[0]).fluent(key[1])
        else:
            fl = problem.fluent(key[0])
    except Exception:
        return None
    tp = fl.type
    d = domain_of(problem, tp, int_cap=6)
    if d is not None:
        return d
    if tp.is_int_type() or tp.is_real_type():
        lb, ub = tp.lower_bound, tp.upper_bound
        vals = [v for v in _NUM_SAMPLE if (lb is None or v >= lb) and (ub is None or v <= ub)]
        if tp.is_int_type():
            vals = [v for v in vals if isinstance(v, int)]
        for b in (lb, ub):
            if b is not None:
                vals.append(norm(Fraction(b)))
        return vals or None
    return None


def completions(e, I, cap=40, depth=3):
    """Set of strict values of e over completions of the undefined ground fluents that e reads
    (supervaluation; numeric domains are sampled). UNDEF is a member if some completion stays undefined."""
    from itertools import islice

    J = Interp(I.problem, I.fluents, I.params, I.vars, I.agent)
    J.reads = set()
    s = ev(e, J, "strict")
    if s is not UNDEF:
        return {s}
    missing = sorted((k for k in J.reads if k not in I.fluents), key=str)
    if not missing or depth <= 0:
        return {UNDEF}
    doms = []
    for k in missing:
        d = _key_domain(I.problem, k)
        if not d:
            return {UNDEF}
        doms.append(d)
    out = set()
    for combo in islice(product(*doms), cap):
        fl = dict(I.fluents)
        fl.update(zip(missing, combo))
        K = Interp(I.problem, fl, I.params, I.vars, I.agent)
        out |= completions(e, K, cap=max(4, cap // 4), depth=depth - 1)
        if len(out) > 1 and UNDEF in out:
            break
    return out


def judge(e, I):
    """'T' strictly true | 'F' strictly false | ('V', v) strictly defined non-Boolean value
    | 'DC' undefined read but every completion gives one and the same defined value (implementations that simplify or
      short-circuit may legitimately answer either way: don't-care; the common value is returned as ('DC', v))
    | 'U' undefined read that matters (completions disagree or stay undefined)."""
    s = ev(e, I, "strict")
    if s is True:
        return "T"
    if s is False:
        return "F"
    if s is not UNDEF:
        return ("V", s)
    R = completions(e, I)
    if UNDEF not in R and len(R) == 1:
        return ("DC", next(iter(R)))
    return "U"


def holds(e, I):
    """Three-way judgement of a condition/goal: True (satisfied), False (not satisfied under any admissible reading),
    None (don't-care: reads an undefined fluent but is true under every completion, e.g. `true or undef`, `f == f`)."""
    j = judge(e, I)
    if j == "T":
        return True
    if j == "F" or j == "U":
        return False
    if isinstance(j, tuple) and j[0] == "DC":
        return None if j[1] is True else False
    return False


def free_vars(e, bound=frozenset()):
    """Own free-variable function: names of variables occurring free in e."""
    nt = e.node_type
    if nt == OK.VARIABLE_EXP:
        n = e.variable().name
        return set() if n in bound else {n}
    if nt == OK.EXISTS or nt == OK.FORALL:
        b = bound | {v.name for v in e.variables()}
        return free_vars(e.arg(0), b)
    out = set()
    for a in e.args:
        out |= free_vars(a, bound)
    return out


def fluents_in(e):
    """Set of Fluent objects occurring in e."""
    out = set()
    stack = [e]
    while stack:
        x = stack.pop()
        if x.node_type == OK.FLUENT_EXP:
            out.add(x.fluent())
        stack.extend(x.args)
    return out


def size(e):
    n = 0
    stack = [e]
    while stack:
        x = stack.pop()
        n += 1
        stack.extend(x.args)
    return n

"""Bounded exhaustive plan search under the reference sequential semantics vk.ref.seqsem (+ vk.ref.traj) — DESIGN §3.3.

Owner: C06/C07 (agent "compilers").  Reused by C27, C28, C30, C31 as the "planner" the offline sandbox lacks.
Oracle code: never calls a library walker / simulator / validator / grounder.

A sequential plan [(action, args)...] is **valid** for a problem iff, starting from the initial state (which must itself
satisfy the numeric bounds and the state invariants), every step is applicable (seqsem.succ status 'ok'), the final state
satisfies all goals (seqsem.goal_status True) and the state sequence satisfies the trajectory constraints (traj.status
True).  Whenever one of these judgements is a *don't-care* of the reference semantics (seqsem DONTCARE successor, goal /
invariant / trajectory constraint reading an undefined fluent, ...) the plan is neither valid nor invalid: such successors
are **never expanded**, such plans are never reported, and the search is marked *tainted* (reasons are counted), so that a
caller can refuse to conclude "no plan exists" from a tainted search.

API (small on purpose)
----------------------
Space(problem, node_cap=20000, instances=None)
    the explicit search space with caches; `instances` = list of (action, args-tuple of python values), default all
    ground instances (seqsem.all_instances).  Raises evalx.Unsupported for infinite parameter domains.
    .instances, .s0 (state id 0), .state(sid) -> dict, .init_status 'ok'|'invalid'|'dontcare'
    .step(sid, i) -> (status, sid2 | None, Succ)      cached seqsem.succ of instance i in state sid
    .goal(sid) -> True|False|None                      cached seqsem.goal_status (.forget_goals() after editing goals)
    (init_status 'dontcare' also when a *bounded* numeric fluent has no initial value, as in C01)
    .nodes  number of distinct (state, instance) successor evaluations;  .capped  True once node_cap was exceeded
    .taint  dict reason -> count of don't-care judgements met;  .tainted  bool
plans(problem_or_space, k, max_plans=None, node_cap=20000, max_paths=300000) -> PlanSet
    all valid plans of length <= k, shortest first, deterministic order (max_paths bounds the number of paths visited).
    .plans  list of FoundPlan(.idx tuple of instance indexes, .steps [(action,args)], .sids state ids s0..sn, .states)
    .complete  True iff exhaustive (node cap, max_plans and max_paths not hit);  .tainted / .taint as above;  .space
guided(space, k, allowed, accept=None, memo=True, max_paths=300000) -> (FoundPlan | None, complete: bool)
    depth-first search for one valid plan of length <= k in which step number n may only use the instances returned by
    `allowed(tag, n) -> iterable of (instance index, next tag)`; `tag` is an opaque hashable search annotation
    (start: allowed is first called with tag=None); `accept(tag)` says whether a plan may end with that annotation.
    (C07: tag = position in the original plan; instances whose map-back equals pi[tag] advance it, map-back None keeps it.)
validate(problem, steps) -> (verdict, info)   verdict in 'valid' | 'invalid' | 'dontcare'
    info: {"where": 'initial-state'|'step'|'goal'|'trajectory', "index", "reason", "states"}
exec_steps(problem, steps) -> (status, states, index, Succ|None)        thin wrapper of seqsem.run_plan
"""
from vk.ref import seqsem, traj
from vk.ref.seqsem import DONTCARE, INAPP, OKAY


def undefined_bounded(problem, s0):
    """Is some *bounded* numeric ground fluent undefined in s0?  Whether such an initial state satisfies the bounds is not
    fixed by the docs (the library's simulator rejects it); C01 classifies it don't-care, so does every search here."""
    for f, args in seqsem.ground_fluents(problem):
        t = f.type
        if (t.is_int_type() or t.is_real_type()) and (t.lower_bound is not None or t.upper_bound is not None) and (f.name, args) not in s0:
            return True
    return False


class FoundPlan:
    __slots__ = ("idx", "steps", "sids", "states")

    def __init__(self, space, idx, sids):
        self.idx = tuple(idx)
        self.steps = [space.instances[i] for i in idx]
        self.sids = tuple(sids)
        self.states = [space.state(s) for s in sids]

    def __len__(self):
        return len(self.idx)

    def names(self):
        return [[a.name, list(args)] for a, args in self.steps]


class Space:
    def __init__(self, problem, node_cap=20000, instances=None):
        self.problem = problem
        self.node_cap = node_cap
        self.instances = list(instances) if instances is not None else seqsem.all_instances(problem)
        self.nodes = 0
        self.capped = False
        self.taint = {}
        self._ids = {}
        self._states = []
        self._succ = {}
        self._goal = {}
        self.has_traj = any(True for _ in traj.atoms(problem) if _[0] != "always")
        s0 = seqsem.initial_state(problem)
        self.s0 = self._intern(s0)
        ok, _ = seqsem.bounds_ok(problem, s0)
        inv = seqsem.invariants_status(problem, s0) if problem.state_invariants else True
        if not ok or inv is False:
            self.init_status = "invalid"
        elif inv is None:
            self.init_status = "dontcare"
            self._taint("initial state: invariant reads an undefined fluent")
        elif undefined_bounded(problem, s0):
            self.init_status = "dontcare"
            self._taint("initial state: bounded numeric fluent without initial value")
        else:
            self.init_status = "ok"

    # ---- bookkeeping ---------------------------------------------------------------------------------
    @property
    def tainted(self):
        return bool(self.taint)

    def _taint(self, reason):
        self.taint[reason] = self.taint.get(reason, 0) + 1

    def _intern(self, s):
        k = seqsem.freeze(s)
        sid = self._ids.get(k)
        if sid is None:
            sid = len(self._states)
            self._ids[k] = sid
            self._states.append(s)
        return sid

    def state(self, sid):
        return self._states[sid]

    # ---- cached judgements ---------------------------------------------------------------------------
    def step(self, sid, i):
        key = (sid, i)
        r = self._succ.get(key)
        if r is None:
            if self.nodes >= self.node_cap:
                self.capped = True
                return ("capped", None, None)
            self.nodes += 1
            a, args = self.instances[i]
            sc = seqsem.succ(self.problem, self._states[sid], a, args)
            if sc.status == OKAY:
                r = (OKAY, self._intern(sc.state), sc)
            else:
                if sc.status == DONTCARE:
                    self._taint("successor: " + str(sc.reason))
                r = (sc.status, None, sc)
            self._succ[key] = r
        return r

    def goal(self, sid):
        g = self._goal.get(sid, 0)
        if g == 0:
            g = seqsem.goal_status(self.problem, self._states[sid])
            if g is None:
                self._taint("goal reads an undefined fluent")
            self._goal[sid] = g
        return g

    def forget_goals(self):
        """Call after the goals of the problem were edited in place (successor caches stay valid)."""
        self._goal.clear()

    def traj_ok(self, sids):
        """True / False / None for the trajectory constraints over the trace (always-constraints included)."""
        if not self.problem.trajectory_constraints:
            return True
        r = traj.status(self.problem, [self._states[s] for s in sids])
        if r is None:
            self._taint("trajectory constraint reads an undefined fluent")
        return r

    def end_ok(self, sids):
        """May a plan end here? (goal + trajectory constraints) True/False/None."""
        g = self.goal(sids[-1])
        if g is False:
            return False
        t = self.traj_ok(sids)
        if t is False:
            return False
        if g is None or t is None:
            return None
        return True


class PlanSet:
    def __init__(self, space):
        self.space = space
        self.plans = []
        self.cut = False

    @property
    def complete(self):
        return not self.space.capped and not self.cut

    @property
    def tainted(self):
        return self.space.tainted

    @property
    def taint(self):
        return self.space.taint


def plans(problem_or_space, k, max_plans=None, node_cap=20000, max_paths=300000):
    sp = problem_or_space if isinstance(problem_or_space, Space) else Space(problem_or_space, node_cap=node_cap)
    out = PlanSet(sp)
    if sp.init_status != "ok":
        return out
    n_inst = len(sp.instances)
    # reach[(sid, r)]: can a goal state (goal True or don't-care) be reached within r more steps? (pruning only; a
    # necessary condition also in the presence of trajectory constraints)
    reach = {}

    def can_reach(sid, r):
        key = (sid, r)
        v = reach.get(key)
        if v is not None:
            return v
        if sp.goal(sid) is not False:
            reach[key] = True
            return True
        res = False
        if r > 0:
            for i in range(n_inst):
                st, nid, _ = sp.step(sid, i)
                if st == OKAY and can_reach(nid, r - 1):
                    res = True
                    break
        if not sp.capped:
            reach[key] = res
        return res

    # iterative deepening so that plans come out shortest first; all caches are shared between the rounds
    visited = 0
    for length in range(0, k + 1):
        stack = [((), (sp.s0,))]
        while stack:
            idx, sids = stack.pop()
            visited += 1
            if visited > max_paths:  # the number of *paths* is not bounded by node_cap (which counts distinct successors)
                out.cut = True
                return out
            d = len(idx)
            if d == length:
                if sp.end_ok(sids) is True:
                    if max_plans is not None and len(out.plans) >= max_plans:
                        out.cut = True
                        return out
                    out.plans.append(FoundPlan(sp, idx, sids))
                continue
            sid = sids[-1]
            ext = []
            for i in range(n_inst):
                st, nid, _ = sp.step(sid, i)
                if st == OKAY and can_reach(nid, length - d - 1):
                    ext.append((idx + (i,), sids + (nid,)))
            stack.extend(reversed(ext))
            if sp.capped:
                return out
    return out


def guided(space, k, allowed, accept=None, memo=True, max_paths=300000):
    sp = space
    if sp.init_status != "ok":
        return None, not sp.capped
    use_memo = memo and not sp.has_traj
    dead = set()
    budget = [max_paths]

    def rec(idx, sids, tag, n):
        budget[0] -= 1
        if budget[0] < 0:
            return None
        sid = sids[-1]
        if (accept is None or accept(tag)) and sp.end_ok(sids) is True:
            return FoundPlan(sp, idx, sids)
        if n >= k:
            return None
        key = (sid, tag, k - n)
        if use_memo and key in dead:
            return None
        for i, ntag in allowed(tag, n):
            st, nid, _ = sp.step(sid, i)
            if st == OKAY:
                r = rec(idx + (i,), sids + (nid,), ntag, n + 1)
                if r is not None:
                    return r
            if sp.capped:
                return None
        if use_memo:
            dead.add(key)
        return None

    found = rec((), (sp.s0,), None, 0)
    return found, not sp.capped and budget[0] >= 0


def exec_steps(problem, steps):
    return seqsem.run_plan(problem, steps)


def validate(problem, steps):
    """Judge one given plan.  steps: [(action, args tuple of python values)]."""
    s0 = seqsem.initial_state(problem)
    ok, bad = seqsem.bounds_ok(problem, s0)
    if not ok:
        return "invalid", {"where": "initial-state", "reason": "bounds", "info": bad, "states": [s0]}
    if problem.state_invariants:
        inv = seqsem.invariants_status(problem, s0)
        if inv is False:
            return "invalid", {"where": "initial-state", "reason": "invariant", "states": [s0]}
        if inv is None:
            return "dontcare", {"where": "initial-state", "reason": "invariant reads an undefined fluent", "states": [s0]}
    if undefined_bounded(problem, s0):
        return "dontcare", {"where": "initial-state", "reason": "bounded numeric fluent without initial value", "states": [s0]}
    status, states, i, sc = seqsem.run_plan(problem, steps, s0)
    if status == INAPP:
        return "invalid", {"where": "step", "index": i, "reason": sc.reason, "info": sc.info, "states": states}
    if status == DONTCARE:
        return "dontcare", {"where": "step", "index": i, "reason": sc.reason, "states": states}
    g = seqsem.goal_status(problem, states[-1])
    if g is False:
        return "invalid", {"where": "goal", "reason": "goal-false", "states": states}
    t = traj.status(problem, states) if problem.trajectory_constraints else True
    if t is False:
        return "invalid", {"where": "trajectory", "reason": "trajectory-constraint-false", "info": traj.explain(problem, states), "states": states}
    if g is None:
        return "dontcare", {"where": "goal", "reason": "goal reads an undefined fluent", "states": states}
    if t is None:
        return "dontcare", {"where": "trajectory", "reason": "trajectory constraint reads an undefined fluent", "states": states}
    return "valid", {"states": states}

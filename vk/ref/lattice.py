"""Set-of-features model of ProblemKind per version (oracle of C33; owner: stn-htn-kind).

A kind is modelled as a pair (raw feature set, declared version or None). Nothing here imports the code under test: the
version table below is transcribed from the "Version changes" documentation in problem_kind_versioning.py (the check
compares it with the library's table once and refuses to run - harness error - if the two have drifted apart, so that a
new library version cannot silently turn the oracle stale).
"""

LATEST = 3

# feature -> (version it was added in, version it was deprecated in or None); features not listed: (1, None)
VERSIONS = {
    "CONTINUOUS_NUMBERS": (1, 2),
    "DISCRETE_NUMBERS": (1, 2),
    "NUMERIC_FLUENTS": (1, 2),
    "INT_TYPE_DURATIONS": (2, None),
    "REAL_TYPE_DURATIONS": (2, None),
    "INT_FLUENTS": (2, None),
    "REAL_FLUENTS": (2, None),
    "INT_NUMBERS_IN_ACTIONS_COST": (2, None),
    "REAL_NUMBERS_IN_ACTIONS_COST": (2, None),
    "INT_NUMBERS_IN_OVERSUBSCRIPTION": (2, None),
    "REAL_NUMBERS_IN_OVERSUBSCRIPTION": (2, None),
    "UNDEFINED_INITIAL_NUMERIC": (2, None),
    "UNDEFINED_INITIAL_SYMBOLIC": (2, None),
    "PROCESSES": (3, None),
    "EVENTS": (3, None),
    "INCREASE_CONTINUOUS_EFFECTS": (3, None),
    "DECREASE_CONTINUOUS_EFFECTS": (3, None),
    "NON_LINEAR_CONTINUOUS_EFFECTS": (3, None),
}

# upgrade rules  v -> v+1 :  (features that must all be present) => (features gained); then `dropped` are removed
UPGRADE_RULES = {
    1: {
        "gain": [
            ({"CONTINUOUS_NUMBERS", "NUMERIC_FLUENTS"}, {"REAL_FLUENTS"}),
            ({"DISCRETE_NUMBERS", "NUMERIC_FLUENTS"}, {"INT_FLUENTS"}),
            ({"ACTIONS_COST"}, {"INT_NUMBERS_IN_ACTIONS_COST", "REAL_NUMBERS_IN_ACTIONS_COST"}),
            ({"OVERSUBSCRIPTION"}, {"INT_NUMBERS_IN_OVERSUBSCRIPTION", "REAL_NUMBERS_IN_OVERSUBSCRIPTION"}),
            ({"CONTINUOUS_TIME"}, {"REAL_TYPE_DURATIONS", "INT_TYPE_DURATIONS"}),
            ({"DISCRETE_TIME"}, {"INT_TYPE_DURATIONS"}),
        ],
        "dropped": {"CONTINUOUS_NUMBERS", "DISCRETE_NUMBERS", "NUMERIC_FLUENTS"},
    },
    2: {"gain": [], "dropped": set()},
}


def added(f):
    return VERSIONS.get(f, (1, None))[0]


def deprecated(f):
    return VERSIONS.get(f, (1, None))[1]


def is_valid(f, v):
    d = deprecated(f)
    return added(f) <= v and not (d is not None and d <= v)


def version_of(features, declared):
    if declared is not None:
        return declared
    v = 1
    for f in features:
        v = max(v, added(f))
    return v


def constructible(features, declared):
    """The constructor's documented precondition: a declared version admits only features added up to it."""
    return declared is None or all(added(f) <= declared for f in features)


def upgrade(features, v, w):
    """Raw features of a version-v kind upgraded to version w >= v."""
    fs = set(features)
    while v < w:
        rules = UPGRADE_RULES[v]
        gained = set()
        for need, gain in rules["gain"]:
            if need <= fs:
                gained |= gain
        fs = (fs | gained) - rules["dropped"]
        v += 1
    return fs


def norm(features, v):
    """Meaning of a raw feature set at version v: the features that exist and are not deprecated there."""
    return frozenset(f for f in features if is_valid(f, v))


class K:
    """Model kind."""

    __slots__ = ("raw", "declared", "version", "feats")

    def __init__(self, features, declared=None):
        self.raw = frozenset(features)
        self.declared = declared
        self.version = version_of(self.raw, declared)
        self.feats = norm(self.raw, self.version)

    def up(self, w):
        k = K(upgrade(self.raw, self.version, w), w)
        return k

    def __repr__(self):
        return f"K({sorted(self.raw)}, declared={self.declared}) = v{self.version}:{sorted(self.feats)}"


def eq(a, b):
    return a.version == b.version and a.feats == b.feats


def le(a, b):
    w = max(a.version, b.version)
    return a.up(w).feats <= b.up(w).feats


def union(a, b):
    w = max(a.version, b.version)
    return K(a.up(w).raw | b.up(w).raw, w)


def intersection(a, b):
    w = max(a.version, b.version)
    return K(a.up(w).raw & b.up(w).raw, w)

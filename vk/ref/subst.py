"""Reference substitution (oracle for C13): top-down, maximal occurrences, no re-substitution inside inserted values, keys that
mention a variable bound by an enclosing quantifier are not replaced inside it. Rebuilds through the public constructors only."""
from unified_planning.model.operators import OperatorKind as OK


def free_var_objs(e, bound=frozenset()):
    """Variable objects occurring free in e (own function, no library walker)."""
    nt = e.node_type
    if nt == OK.VARIABLE_EXP:
        v = e.variable()
        return set() if v in bound else {v}
    if nt == OK.EXISTS or nt == OK.FORALL:
        return free_var_objs(e.arg(0), bound | set(e.variables()))
    out = set()
    for a in e.args:
        out |= free_var_objs(a, bound)
    return out


def rebuild(em, e, args):
    nt = e.node_type
    if nt == OK.AND:
        return em.And(args)
    if nt == OK.OR:
        return em.Or(args)
    if nt == OK.NOT:
        return em.Not(args[0])
    if nt == OK.IMPLIES:
        return em.Implies(args[0], args[1])
    if nt == OK.IFF:
        return em.Iff(args[0], args[1])
    if nt == OK.EXISTS:
        return em.Exists(args[0], *e.variables())
    if nt == OK.FORALL:
        return em.Forall(args[0], *e.variables())
    if nt == OK.EQUALS:
        return em.Equals(args[0], args[1])
    if nt == OK.LE:
        return em.LE(args[0], args[1])
    if nt == OK.LT:
        return em.LT(args[0], args[1])
    if nt == OK.PLUS:
        return em.Plus(args)
    if nt == OK.TIMES:
        return em.Times(args)
    if nt == OK.MINUS:
        return em.Minus(args[0], args[1])
    if nt == OK.DIV:
        return em.Div(args[0], args[1])
    if nt == OK.FLUENT_EXP:
        return em.FluentExp(e.fluent(), tuple(args))
    if nt == OK.INTERPRETED_FUNCTION_EXP:
        return em.InterpretedFunctionExp(e.interpreted_function(), tuple(args))
    if nt == OK.DOT:
        return em.Dot(e.agent(), args[0])
    if nt == OK.ALWAYS:
        return em.Always(args[0])
    if nt == OK.SOMETIME:
        return em.Sometime(args[0])
    if nt == OK.AT_MOST_ONCE:
        return em.AtMostOnce(args[0])
    if nt == OK.SOMETIME_BEFORE:
        return em.SometimeBefore(args[0], args[1])
    if nt == OK.SOMETIME_AFTER:
        return em.SometimeAfter(args[0], args[1])
    if not e.args:
        return e
    raise NotImplementedError(nt)


def substitute(e, m):
    """m: dict FNode -> FNode (already auto-promoted). Returns the expected FNode."""
    em = e.environment.expression_manager
    hit = [0]

    def go(x, mm):
        if x in mm:
            hit[0] += 1
            return mm[x]
        if x.is_exists() or x.is_forall():
            bound = set(x.variables())
            m2 = {k: v for k, v in mm.items() if not (free_var_objs(k) & bound)}
            return rebuild(em, x, [go(x.arg(0), m2)])
        if not x.args:
            return x
        return rebuild(em, x, [go(a, mm) for a in x.args])

    out = go(e, m)
    return out, hit[0]

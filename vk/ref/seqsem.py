"""Reference sequential semantics (DESIGN §3.2). State = dict (fluent_name, args) -> python value; missing = undefined."""
from fractions import Fraction
from itertools import product

from vk.ref.evalx import UNDEF, Interp, Unsupported, const_value, domain_of, ev, ev2, holds, judge, objects_of, norm

OKAY, INAPP, DONTCARE = "ok", "inapplicable", "dontcare"
COINCIDING = "coinciding instances of one forall increase/decrease"


def ground_fluents(problem, int_cap=12):
    """All ground fluents (Fluent, args tuple of python values) with finite parameter domains."""
    out = []
    for f in problem.fluents:
        doms = []
        for p in f.signature:
            d = domain_of(problem, p.type, int_cap)
            if d is None:
                raise Unsupported(f"fluent {f.name} has an infinite parameter domain")
            doms.append(d)
        for combo in product(*doms):
            out.append((f, tuple(combo)))
    return out


def _fexp(problem, f, args):
    em = problem.environment.expression_manager
    a = []
    for p, v in zip(f.signature, args):
        if p.type.is_user_type():
            a.append(em.ObjectExp(problem.object(v)))
        elif p.type.is_bool_type():
            a.append(em.Bool(v))
        else:
            a.append(em.Int(v))
    return em.FluentExp(f, tuple(a))


def fexp(problem, f, args):
    return _fexp(problem, f, args)


def initial_state(problem):
    """explicit initial value > per-fluent default (which the model derives from per-type defaults) > undefined."""
    s = {}
    expl = problem.explicit_initial_values
    defaults = problem.fluents_defaults
    for f, args in ground_fluents(problem):
        fe = _fexp(problem, f, args)
        v = expl.get(fe, None)
        if v is None:
            v = defaults.get(f, None)
        if v is not None:
            s[(f.name, args)] = const_value(v)
    return s


def read_state(problem, state, gfl=None):
    """Read a library State back into a reference state through its public get_value."""
    from unified_planning.exceptions import UPStateMissingFluentError

    s = {}
    for f, args in gfl if gfl is not None else ground_fluents(problem):
        try:
            v = state.get_value(_fexp(problem, f, args))
        except UPStateMissingFluentError:
            continue
        s[(f.name, args)] = const_value(v)
    return s


def ground_instances(problem, action, int_cap=12):
    doms = []
    for p in action.parameters:
        d = domain_of(problem, p.type, int_cap)
        if d is None:
            raise Unsupported(f"action {action.name} has an infinite parameter domain")
        doms.append(d)
    return [tuple(c) for c in product(*doms)]


def all_instances(problem):
    return [(a, args) for a in problem.actions for args in ground_instances(problem, a)]


def param_exprs(problem, action, args):
    em = problem.environment.expression_manager
    out = []
    for p, v in zip(action.parameters, args):
        if p.type.is_user_type():
            out.append(em.ObjectExp(problem.object(v)))
        elif p.type.is_bool_type():
            out.append(em.Bool(v))
        elif p.type.is_int_type():
            out.append(em.Int(v))
        else:
            out.append(em.Real(Fraction(v)))
    return tuple(out)


def _in_bounds(tp, v):
    if not (tp.is_int_type() or tp.is_real_type()):
        return True
    lb, ub = tp.lower_bound, tp.upper_bound
    if lb is not None and v < lb:
        return False
    if ub is not None and v > ub:
        return False
    return True


def bounds_ok(problem, s):
    for f in problem.fluents:
        if f.type.is_int_type() or f.type.is_real_type():
            if f.type.lower_bound is None and f.type.upper_bound is None:
                continue
            for (name, args), v in s.items():
                if name == f.name and not _in_bounds(f.type, v):
                    return False, (name, args, v)
    return True, None


def invariants_status(problem, s):
    """True / False / None(don't-care: an invariant reads an undefined fluent or readings disagree)."""
    I = Interp(problem, s)
    res = True
    for inv in problem.state_invariants:
        j = judge(inv, I)
        if j == "F":
            res = False
        elif j != "T":
            return None
    return res


class Succ:
    __slots__ = ("status", "state", "reason", "info")

    def __init__(self, status, state=None, reason=None, info=None):
        self.status, self.state, self.reason, self.info = status, state, reason, info or {}

    def __repr__(self):
        return f"Succ({self.status}, reason={self.reason})"


def expand_effect(problem, eff):
    """Yield variable bindings (dict) of a (possibly forall) effect over all objects of the variable types."""
    vs = list(eff.forall)
    if not vs:
        yield {}
        return
    doms = []
    for v in vs:
        d = domain_of(problem, v.type)
        if d is None:
            raise Unsupported("forall effect over infinite type")
        doms.append(d)
    for combo in product(*doms):
        yield {v.name: c for v, c in zip(vs, combo)}


def succ(problem, s, action, args, check_invariants=True, strict_forall=False) -> Succ:
    """Reference successor. args: python values of the action parameters.

    strict_forall: when two bindings of ONE forall increase/decrease hit the same ground fluent, the default is to
    return DONTCARE (so that every property built on this semantics skips the case); C01, the property the
    behaviour is attributed to, passes True and gets the literal reading (every binding accumulates) with the
    feature "coinciding-forall-incdec" in info."""
    params = {p.name: v for p, v in zip(action.parameters, args)}
    I = Interp(problem, s, params)
    info = {"features": set()}
    dontcare = None
    # 2. preconditions
    for i, c in enumerate(action.preconditions):
        hv = holds(c, I)
        if hv is False:
            st = ev(c, I, "strict")
            return Succ(INAPP, reason="precondition-undefined" if st is UNDEF else "precondition-false", info={"index": i})
        if hv is None:
            dontcare = dontcare or "precondition reads an undefined fluent but is true under every completion"
    if dontcare:
        return Succ(DONTCARE, reason=dontcare)
    if getattr(action, "simulated_effect", None) is not None:
        return Succ(DONTCARE, reason="simulated effect")
    # 3. effects, all evaluated in s
    assigns = {}  # key -> list of values
    deltas = {}  # key -> Fraction sum
    fl_types = {}
    srcs = {}  # key -> set of (value expression, binding) that produced the assignments
    forall_hits = set()
    for eff in action.effects:
        if eff.forall:
            info["features"].add("forall")
        if eff.is_conditional():
            info["features"].add("conditional")
        for binding in expand_effect(problem, eff):
            J = I.with_vars(binding) if binding else I
            targs = []
            for a in eff.fluent.args:
                v = ev(a, J, "strict")
                if v is UNDEF:
                    return Succ(DONTCARE, reason="effect target argument undefined")
                targs.append(v)
            key = (eff.fluent.fluent().name, tuple(targs))
            fl_types[key] = eff.fluent.fluent().type
            if eff.is_conditional():
                jc = judge(eff.condition, J)
                if jc == "F":
                    continue
                if jc != "T":
                    # the condition reads an undefined fluent: the docs call the step ill-defined, the statement says the
                    # condition "is never satisfied" (effect does not fire) - both readings are admissible: don't-care
                    return Succ(DONTCARE, reason="effect condition reads an undefined fluent")
            jv = judge(eff.value, J)
            if jv == "U":
                return Succ(INAPP, reason="effect-value-undefined")
            if isinstance(jv, tuple) and jv[0] == "DC":
                return Succ(DONTCARE, reason="effect value reads an undefined fluent that does not matter")
            sv = jv[1] if isinstance(jv, tuple) else (jv == "T")
            if eff.is_assignment():
                assigns.setdefault(key, []).append(sv)
                srcs.setdefault(key, set()).add((eff.value, tuple(sorted(binding.items()))) if not eff.value.is_constant() else eff.value)
            elif eff.is_increase() or eff.is_decrease():
                if binding:
                    if (id(eff), key) in forall_hits:
                        # two bindings of ONE forall increase/decrease hit the same ground fluent. Literal reading of C01:
                        # every binding accumulates. The library agrees unless the variable disappears from the effect when
                        # the ground action is simplified (known finding of C01); every other property skips the case.
                        if not strict_forall:
                            return Succ(DONTCARE, reason=COINCIDING)
                        info["features"].add("coinciding-forall-incdec")
                    forall_hits.add((id(eff), key))
            if eff.is_assignment():
                pass
            elif eff.is_increase():
                deltas[key] = deltas.get(key, 0) + sv
                deltas.setdefault(("#n", key), 0)
                deltas[("#n", key)] += 1
            elif eff.is_decrease():
                deltas[key] = deltas.get(key, 0) - sv
                deltas.setdefault(("#n", key), 0)
                deltas[("#n", key)] += 1
            else:
                return Succ(DONTCARE, reason="unknown effect kind")
    # 4. conflicts
    updates = {}
    for key, vals in assigns.items():
        if key in deltas:
            return Succ(DONTCARE, reason="assignment and increase/decrease on one ground fluent")
        if fl_types[key].is_bool_type():
            if len(set(vals)) > 1:
                info["features"].add("add-after-delete")
            updates[key] = True if any(v is True for v in vals) else False
        else:
            distinct = []
            for v in vals:
                if not any(v == d for d in distinct):
                    distinct.append(v)
            if len(distinct) > 1:
                return Succ(INAPP, reason="conflicting-assignments", info={"fluent": key, "values": distinct})
            if len(vals) > 1:
                if len(srcs[key]) > 1:
                    # equal values from syntactically different value expressions: the model-building API rejects such a
                    # pair when both are unconditional (static conflict rule), so after grounding/simplification the
                    # library may legitimately refuse the action; the statement only fixes *different* values.
                    return Succ(DONTCARE, reason="same value assigned twice through different value expressions")
                info["features"].add("same-value-twice")
            updates[key] = distinct[0]
    for key, d in deltas.items():
        if key[0] == "#n":
            continue
        if key not in s:
            return Succ(DONTCARE, reason="increase/decrease of an undefined fluent")
        if deltas[("#n", key)] > 1:
            info["features"].add("accumulated-incdec")
        updates[key] = norm(s[key] + d)
    # 5. successor
    s2 = dict(s)
    s2.update(updates)
    changed = {k for k, v in updates.items() if s.get(k, UNDEF) is UNDEF or s[k] != v}
    info["changed"] = changed
    ok, bad = bounds_ok(problem, s2)
    if not ok:
        return Succ(INAPP, reason="bounds", info={"fluent": bad, **info})
    if check_invariants and problem.state_invariants:
        st = invariants_status(problem, s2)
        if st is None:
            return Succ(DONTCARE, reason="invariant reads an undefined fluent")
        if st is False:
            return Succ(INAPP, reason="invariant", info=info)
    return Succ(OKAY, state=s2, info=info)


def goal_status(problem, s):
    """True / False / None (don't-care: strict and Kleene readings disagree)."""
    I = Interp(problem, s)
    res = True
    for g in problem.goals:
        hv = holds(g, I)
        if hv is None:
            return None
        if hv is False:
            res = False
    return res


def freeze(s):
    return tuple(sorted(((k[0], tuple(map(str, k[1]))), str(v)) for k, v in s.items()))


def show_state(s):
    return {f"{k[0]}({','.join(map(str, k[1]))})": (str(v) if isinstance(v, Fraction) else v) for k, v in sorted(s.items(), key=str)}


def run_plan(problem, steps, s0=None):
    """Execute [(action, args)] from the initial state. Returns (status, states, index, succ)
    status: 'ok' | 'inapplicable' | 'dontcare'."""
    s = initial_state(problem) if s0 is None else s0
    states = [s]
    for i, (a, args) in enumerate(steps):
        r = succ(problem, s, a, args)
        if r.status != OKAY:
            return r.status, states, i, r
        s = r.state
        states.append(s)
    return OKAY, states, len(steps), None

"""Reference conformant planning by breadth-first search in belief space (owner: conformant-meta; C30).

A belief is a set of states of vk.ref.seqsem; an action instance is applicable in a belief iff the reference successor
is defined (status ok) in every member; the goal holds iff it holds in every member.  Only vk.ref.seqsem (through the
memoising vk.ref.bfs_cm.Space) is used, never the library.
"""
from collections import deque
from itertools import product

from vk.ref.bfs_cm import Space
from vk.ref.seqsem import OKAY, DONTCARE


class BeliefResult:
    __slots__ = ("plan", "complete", "beliefs", "dontcare", "trajectory")

    def __init__(self):
        self.plan = None  # list of instance indexes, or None
        self.complete = False  # the whole reachable belief space was enumerated (so plan None == no conformant plan)
        self.beliefs = 0
        self.dontcare = 0
        self.trajectory = None  # beliefs (tuples of state indexes) along the plan, incl. the initial one


def belief_space(pb, states):
    """Space whose root is states[0]; returns (space, tuple of the state indexes of `states`)."""
    space = Space(pb, s0=states[0])
    idx = tuple(space.add(s) for s in states)
    return space, idx


def belief_step(space, belief, ii):
    """-> (status, successor belief | None).  status 'ok' | 'inapplicable' | 'dontcare'."""
    out = set()
    dc = False
    for i in belief:
        st, j, _, _ = space.step(i, ii)
        if st == DONTCARE:
            dc = True
        elif st != OKAY:
            return "inapplicable", None
        else:
            out.add(j)
    if dc:
        return "dontcare", None
    return OKAY, tuple(sorted(out))


def belief_goal(space, belief):
    """True / False / None (some member's goal status is a don't-care)."""
    res = True
    for i in belief:
        g = space.goal(i)
        if g is None:
            return None
        if g is False:
            res = False
    return res


def conformant_bfs(space, init_idx, max_beliefs=20000, max_depth=None):
    r = BeliefResult()
    b0 = tuple(sorted(set(init_idx)))
    parent = {b0: None}
    depth = {b0: 0}
    q = deque([b0])
    capped = False
    limited = False
    found = None
    while q:
        b = q.popleft()
        g = belief_goal(space, b)
        if g is None:
            r.dontcare += 1
        elif g:
            found = b
            break
        if max_depth is not None and depth[b] >= max_depth:
            limited = True
            continue
        for ii in range(len(space.insts)):
            st, nb = belief_step(space, b, ii)
            if st == "dontcare":
                r.dontcare += 1
                continue
            if st != OKAY or nb in parent:
                continue
            if len(parent) >= max_beliefs:
                capped = True
                continue
            parent[nb] = (b, ii)
            depth[nb] = depth[b] + 1
            q.append(nb)
    r.beliefs = len(parent)
    if found is not None:
        seq, traj = [], [found]
        b = found
        while parent[b] is not None:
            b, ii = parent[b][0], parent[b][1]
            seq.append(ii)
            traj.append(b)
        seq.reverse()
        traj.reverse()
        r.plan, r.trajectory = seq, traj
        r.complete = True
    else:
        r.complete = not capped and not limited
    return r


def run_conformant(space, init_idx, seq):
    """Execute seq from every initial state separately. -> (ok: bool | None, detail)
    ok None = a don't-care class was hit."""
    for n, i0 in enumerate(init_idx):
        st, path, pos, reason = space.run(seq, start=i0)
        if st == DONTCARE:
            return None, {"state": n, "step": pos, "reason": reason}
        if st != OKAY:
            return False, {"state": n, "step": pos, "reason": reason, "kind": "inapplicable"}
        g = space.goal(path[-1])
        if g is None:
            return None, {"state": n, "reason": "goal don't-care"}
        if g is False:
            return False, {"state": n, "kind": "goal-not-reached"}
    return True, None


def constrained_assignments(atoms, oneof, orc):
    """All assignments (dict atom -> bool) of `atoms` satisfying: every oneof group has exactly one true literal, every or
    group at least one.  Literals are (atom, positive: bool).  Brute force."""
    out = []
    for vals in product((False, True), repeat=len(atoms)):
        a = dict(zip(atoms, vals))
        if all(sum(1 for (x, pos) in g if a[x] == pos) == 1 for g in oneof) and all(any(a[x] == pos for (x, pos) in g) for g in orc):
            out.append(a)
    return out

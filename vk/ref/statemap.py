"""Reference model of a planning state for C36: a finite map with per-fluent defaults (owner: C36 / model-checks).

A shadow is nothing but a Python dict `key -> value` holding *every* update made along the history of a state
(parent's shadow overlaid by the child's updates).  Keys and values are opaque and only compared with `==`
(the C36 driver uses small integers / python constants, the universal monitor uses the FNodes themselves).
Defaults are supplied from outside as a function `key -> default | None`.  Nothing of the library is called here.
"""

MISSING = "<missing>"


class Shadow:
    __slots__ = ("vals", "depth", "serial", "hist", "__weakref__")
    _n = 0

    def __init__(self, vals, depth=0, hist=()):
        self.vals = dict(vals)
        self.depth = depth
        Shadow._n += 1
        self.serial = Shadow._n
        self.hist = hist  # opaque, hashable description of the update history (may be None when not tracked)

    def child(self, updates, hist_item=None):
        d = dict(self.vals)
        d.update(updates)
        return Shadow(d, self.depth + 1, None if self.hist is None or hist_item is None else (self.hist, hist_item))


def value(sh, key, default_of):
    """The value a state with shadow `sh` must return for `key`: most recent update, else default, else MISSING."""
    if key in sh.vals:
        return sh.vals[key]
    d = default_of(key)
    return MISSING if d is None else d


def effective(sh, universe, default_of):
    """Total view of the state over `universe`: key -> value, keys without value and default omitted."""
    out = {}
    for k in universe:
        v = value(sh, k, default_of)
        if v is not MISSING:
            out[k] = v
    return out


def equal(a, b, default_of, universe=None):
    """Two states are equal iff they give every fluent the same value (a fluent with neither update nor default has
    'no value' in both).  Keys outside both shadows have the same value (default or missing) on both sides, so the
    union of the shadows' keys is a sufficient universe."""
    if universe is None:
        universe = list(a.vals) + [k for k in b.vals if k not in a.vals]
    for k in universe:
        if value(a, k, default_of) != value(b, k, default_of):
            return False
    return True

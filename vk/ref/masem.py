"""Reference per-agent action semantics of multi-agent problems (owner: check C37), on top of vk/ref/evalx.py.

State = dict: environment fluents are keyed (fluent_name, args), agent fluents (agent_name, fluent_name, args); states are
total (every ground fluent has a value).  An action of agent A is evaluated with Interp(agent=A): a bare fluent expression
denotes A's own fluent if A has a fluent of that name, else the environment fluent; Dot(B, f) denotes B's fluent.
Successor semantics = DESIGN §3.2 (all conditions / values evaluated in the pre-state, forall effects expanded, Boolean
add-after-delete, conflicting assignments and bound violations make the action inapplicable).
Only read-only accessors of the model classes are used.
"""
from itertools import product

from unified_planning.model.operators import OperatorKind as OK

from vk.ref.evalx import UNDEF, Interp, Unsupported, domain_of, ev, norm

OKAY, INAPP, DONTCARE = "ok", "inapplicable", "dontcare"


def ground_keys(pb, int_cap=6):
    """[(key, type)] for every ground fluent of the environment and of every agent."""
    out = []

    def add(prefix, fluents):
        for f in fluents:
            doms = []
            for p in f.signature:
                d = domain_of(pb, p.type, int_cap)
                if d is None:
                    raise Unsupported(f"fluent {f.name}: infinite parameter domain")
                doms.append(d)
            for combo in product(*doms):
                out.append((prefix + (f.name, tuple(combo)), f.type))

    add((), pb.ma_environment.fluents)
    for ag in pb.agents:
        add((ag.name,), ag.fluents)
    return out


def value_domain(pb, tp, int_cap=6):
    d = domain_of(pb, tp, int_cap)
    if d is None:
        raise Unsupported(f"infinite value domain {tp}")
    return d


def const_of(node):
    from vk.ref.evalx import const_value

    return const_value(node)


def initial_state(pb, keys=None):
    """explicit value > per-fluent default; a ground fluent without either is left out (undefined)."""
    keys = keys if keys is not None else ground_keys(pb)
    expl = {}
    for fe, v in pb.explicit_initial_values.items():
        if fe.node_type == OK.DOT:
            inner = fe.arg(0)
            k = (fe.agent(), inner.fluent().name, tuple(const_of(a) for a in inner.args))
        else:
            k = (fe.fluent().name, tuple(const_of(a) for a in fe.args))
        expl[k] = const_of(v)
    dflt = {}
    for f in pb.ma_environment.fluents:
        d = pb.ma_environment.fluents_defaults.get(f)
        if d is not None:
            dflt[(f.name,)] = const_of(d)
    for ag in pb.agents:
        for f in ag.fluents:
            d = ag.fluents_defaults.get(f)
            if d is not None:
                dflt[(ag.name, f.name)] = const_of(d)
    s = {}
    for k, _ in keys:
        if k in expl:
            s[k] = expl[k]
        elif k[:-1] in dflt:
            s[k] = dflt[k[:-1]]
    return s


def instances(pb, agent, int_cap=6):
    out = []
    for a in agent.actions:
        doms = []
        for p in a.parameters:
            d = domain_of(pb, p.type, int_cap)
            if d is None:
                raise Unsupported(f"action {a.name}: infinite parameter domain")
            doms.append(d)
        for combo in product(*doms):
            out.append((a, tuple(combo)))
    return out


class Succ:
    __slots__ = ("status", "state", "reason", "info")

    def __init__(self, status, state=None, reason=None, info=None):
        self.status, self.state, self.reason, self.info = status, state, reason, info or {}


def target_key(eff_fluent, own_names, agent_name, J, foreign=None):
    """Key of the ground fluent an effect writes. `foreign` (optional): fluent name -> owning agent, used only for a bare
    fluent that is neither the acting agent's nor an environment fluent (charitable reading, reported by the caller)."""
    if eff_fluent.node_type == OK.DOT:
        inner, owner = eff_fluent.arg(0), eff_fluent.agent()
    else:
        inner = eff_fluent
        n = inner.fluent().name
        owner = agent_name if n in own_names else None
        if owner is None and foreign and n in foreign:
            owner = foreign[n]
    targs = []
    for a in inner.args:
        v = ev(a, J, "strict")
        if v is UNDEF:
            return None, None
        targs.append(v)
    key = (inner.fluent().name, tuple(targs))
    if owner is not None:
        key = (owner,) + key
    return key, inner.fluent().type


def in_bounds(tp, v):
    if not (tp.is_int_type() or tp.is_real_type()):
        return True
    if tp.lower_bound is not None and v < tp.lower_bound:
        return False
    if tp.upper_bound is not None and v > tp.upper_bound:
        return False
    return True


def succ(pb, s, agent, action, args, foreign=None) -> Succ:
    """Reference successor of `action(args)` executed by `agent` in total state s (foreign: see target_key)."""
    params = {p.name: v for p, v in zip(action.parameters, args)}
    I = Interp(pb, s, params, agent=agent.name)
    own = {f.name for f in agent.fluents}
    for i, c in enumerate(action.preconditions):
        v = ev(c, I, "strict")
        if v is UNDEF:
            return Succ(DONTCARE, reason="precondition reads an undefined fluent")
        if v is not True:
            return Succ(INAPP, reason="precondition-false", info={"index": i})
    assigns, deltas, ftypes = {}, {}, {}
    srcs = {}  # key -> set of value expressions (with binding) behind the assignments
    fired = 0
    for eff in action.effects:
        vs = list(eff.forall)
        doms = []
        for v in vs:
            d = domain_of(pb, v.type)
            if d is None:
                raise Unsupported("forall effect over an infinite type")
            doms.append(d)
        for combo in product(*doms):
            J = I.with_vars({v.name: c for v, c in zip(vs, combo)}) if vs else I
            key, ft = target_key(eff.fluent, own, agent.name, J, foreign)
            if key is None:
                return Succ(DONTCARE, reason="effect target argument undefined")
            if key not in s:
                return Succ(DONTCARE, reason="effect on a fluent outside the state")
            ftypes[key] = ft
            if eff.is_conditional():
                c = ev(eff.condition, J, "strict")
                if c is UNDEF:
                    return Succ(DONTCARE, reason="effect condition reads an undefined fluent")
                if c is not True:
                    continue
            val = ev(eff.value, J, "strict")
            if val is UNDEF:
                return Succ(DONTCARE, reason="effect value undefined")
            fired += 1
            if eff.is_assignment():
                assigns.setdefault(key, []).append(val)
                srcs.setdefault(key, set()).add(eff.value if eff.value.is_constant() else (eff.value, combo))
            elif eff.is_increase():
                deltas[key] = deltas.get(key, 0) + val
            elif eff.is_decrease():
                deltas[key] = deltas.get(key, 0) - val
            else:
                return Succ(DONTCARE, reason="unknown effect kind")
    updates = {}
    for key, vals in assigns.items():
        if key in deltas:
            return Succ(DONTCARE, reason="assignment and increase/decrease on one ground fluent")
        if ftypes[key].is_bool_type():
            updates[key] = any(v is True for v in vals)
        else:
            distinct = []
            for v in vals:
                if not any(v == d for d in distinct):
                    distinct.append(v)
            if len(distinct) > 1:
                return Succ(INAPP, reason="conflicting-assignments", info={"fluent": key, "values": distinct})
            if len(vals) > 1 and len(srcs[key]) > 1:
                # equal values through syntactically different value expressions: the model API rejects such a pair
                # statically when both are unconditional, so a compiled variant may legitimately be refused (same
                # don't-care class as in vk/ref/seqsem.py; the statements only fix *different* values)
                return Succ(DONTCARE, reason="same value assigned twice through different value expressions")
            updates[key] = distinct[0]
    for key, d in deltas.items():
        updates[key] = norm(s[key] + d)
    for key, v in updates.items():
        if not in_bounds(ftypes[key], v):
            return Succ(INAPP, reason="bounds", info={"fluent": key, "value": v})
    s2 = dict(s)
    s2.update(updates)
    return Succ(OKAY, state=s2, info={"fired": fired, "changed": sorted(k for k, v in updates.items() if s[k] != v)})


def holds_goal(pb, s, g, agent=None):
    """strict truth value (True/False/UNDEF) of a goal expression in total state s."""
    return ev(g, Interp(pb, s, {}, agent=agent), "strict")


def show(s):
    return {".".join(str(x) if not isinstance(x, tuple) else "(" + ",".join(map(str, x)) + ")" for x in k): (str(v) if not isinstance(v, (bool, int)) else v) for k, v in sorted(s.items(), key=str)}

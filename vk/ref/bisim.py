"""Synchronous product ("bounded bisimulation") of two problems under a name map, over vk.ref.seqsem (owner: io-roundtrip,
used by C18 / C19 / C21).

Two problems A and B are compared *behaviourally*:
  * same objects per user type (B may have additional super-types, e.g. PDDL's `object`);
  * same ground fluents (B may have additional fluents such as `total-cost`; they are ignored when states are compared);
  * same transitions: instantaneous actions are compared directly; a durative action is projected onto one pseudo
    transition per *time class* (a time point `start+d` / `end-d`, or the open interval between two time points - a closed
    interval [l,u] is the conjunction of the point l, the open interval (l,u) and the point u), timed effects of the
    problem onto one pseudo transition per instant, timed goals onto effect-free pseudo transitions.  Durations are
    compared by value (both bounds evaluated with the reference evaluator, open flags literally);
  * same initial state, and from every pair of states reached within the bounds every ground instance of every transition is
    applicable in both or in neither, with corresponding successors; equal goal status.
Cases the reference semantics classifies as don't-care (undefined reads that implementations may simplify away, ...) are
counted and never judged.  Only read-only accessors of the model classes are used; no library walker / simulator.
"""
from collections import deque
from fractions import Fraction
from itertools import product as _product

from vk.ref import seqsem
from vk.ref.evalx import UNDEF, Interp, Unsupported, domain_of, ev, is_subtype, objects_of
from vk.ref.seqsem import OKAY, INAPP, DONTCARE


class Mismatch(Exception):
    def __init__(self, mechanism, summary, **details):
        Exception.__init__(self, mechanism + ": " + summary)
        self.mechanism, self.summary, self.details = mechanism, summary, details


class NameMap:
    """A-side item -> B-side name. The default is the identity on names; comparison with B is case-insensitive."""

    def type(self, t):
        return t.name

    def object(self, o):
        return o.name

    def fluent(self, f):
        return f.name

    def action(self, a):
        return a.name


class FnNameMap(NameMap):
    def __init__(self, fn):
        self.fn = fn

    def type(self, t):
        return self.fn(t)

    def object(self, o):
        return self.fn(o)

    def fluent(self, f):
        return self.fn(f)

    def action(self, a):
        return self.fn(a)


# ---- views: a problem as a set of (pseudo) transitions ------------------------------------------------------------------
class Transition:
    """Duck-typed 'action' understood by seqsem.succ."""

    simulated_effect = None

    def __init__(self, key, name, parameters, preconditions, effects, source=None):
        self.key, self.name, self.parameters = key, name, list(parameters)
        self.preconditions, self.effects, self.source = list(preconditions), list(effects), source

    def __repr__(self):
        return f"Transition{self.key}"


def _timing_key(t):
    tp = t.timepoint.kind.name  # START / END / GLOBAL_START / GLOBAL_END
    return (tp, str(Fraction(t.delay)))


def _global_key(t):
    """Problem-level timings: the library accepts StartTiming/EndTiming for GlobalStartTiming/GlobalEndTiming (its own PDDL
    reader builds timed initial literals with StartTiming) - at problem level they denote the same instant."""
    k, d = _timing_key(t)
    return (k.replace("GLOBAL_", ""), d)


def _interval_classes(iv, tk=None):
    """A TimeInterval as a list of time classes: ('pt', timing) / ('open', lower, upper)."""
    tk = tk or _timing_key
    lo, hi = tk(iv.lower), tk(iv.upper)
    if lo == hi:
        return [("pt",) + lo]
    out = []
    if not iv.is_left_open():
        out.append(("pt",) + lo)
    out.append(("open",) + lo + hi)
    if not iv.is_right_open():
        out.append(("pt",) + hi)
    return out


class View:
    """Problem + its transitions; everything else is delegated to the problem (seqsem only reads accessors)."""

    def __init__(self, problem):
        from unified_planning.model import InstantaneousAction, DurativeAction

        self.problem = problem
        self.transitions = {}  # key -> Transition
        self.durations = {}  # action name -> (lower, upper, left_open, right_open, action)
        self.kinds = {}  # action name -> "inst" | "dur"
        for a in problem.actions:
            if isinstance(a, InstantaneousAction):
                self.kinds[a.name] = "inst"
                self.transitions[("inst", a.name)] = Transition(("inst", a.name), a.name, a.parameters, a.preconditions, a.effects, a)
            elif isinstance(a, DurativeAction):
                self.kinds[a.name] = "dur"
                d = a.duration
                self.durations[a.name] = (d.lower, d.upper, bool(d.is_left_open()), bool(d.is_right_open()), a)
                classes = {}
                for iv, cl in a.conditions.items():
                    for c in _interval_classes(iv):
                        classes.setdefault(c, ([], []))[0].extend(cl)
                for t, el in a.effects.items():
                    classes.setdefault(("pt",) + _timing_key(t), ([], []))[1].extend(el)
                if getattr(a, "continuous_effects", None):
                    raise Unsupported("continuous effects")
                for c, (conds, effs) in classes.items():
                    key = ("dur", a.name, c)
                    self.transitions[key] = Transition(key, a.name, a.parameters, conds, effs, a)
            else:
                raise Unsupported(f"action class {type(a).__name__}")
        for t, el in getattr(problem, "timed_effects", {}).items():
            key = ("til",) + _global_key(t)
            self.transitions[key] = Transition(key, "@til", [], [], el)
        for iv, gl in getattr(problem, "timed_goals", {}).items():
            for c in _interval_classes(iv, _global_key):
                key = ("tgoal", c)
                if key in self.transitions:
                    self.transitions[key].preconditions.extend(gl)
                else:
                    self.transitions[key] = Transition(key, "@tgoal", [], gl, [])


def _lower_index(items, name_of, what, norm=str.lower):
    idx = {}
    for it in items:
        k = norm(name_of(it))
        if k in idx:
            raise Mismatch(f"ambiguous-{what}-names", f"two {what}s of the second problem are named {k!r} up to case")
        idx[k] = it
    return idx


def _kind_of_type(tp):
    if tp.is_bool_type():
        return "bool"
    if tp.is_int_type() or tp.is_real_type():
        return "num"
    if tp.is_user_type():
        return "obj"
    return "other"


class Corr:
    """Correspondence between A and B (raises Mismatch when the static structure already differs)."""

    def __init__(self, A, B, nm=None, case_sensitive=False):
        self.A, self.B, self.nm = A, B, nm or NameMap()
        nm = self.nm
        norm = (lambda x: x) if case_sensitive else str.lower
        self.VA, self.VB = View(A), View(B)
        # objects
        bobj = _lower_index(B.all_objects, lambda o: o.name, "object", norm)
        self.obj = {}  # A object name -> B object name
        hit = set()
        for o in A.all_objects:
            bn = norm(nm.object(o))
            if bn not in bobj:
                raise Mismatch("object-missing", f"object {o.name!r} (expected name {bn!r}) does not exist in the second problem", expected=bn)
            self.obj[o.name] = bobj[bn].name
            hit.add(bn)
        extra = sorted(set(bobj) - hit)
        if extra:
            raise Mismatch("object-extra", f"the second problem has objects without counterpart: {extra}")
        if len(set(self.obj.values())) != len(self.obj):
            raise Mismatch("object-map-not-injective", "two objects are mapped to one name")
        # types: same extension
        btypes = _lower_index(B.user_types, lambda t: t.name, "type", norm)
        for t in A.user_types:
            bn = norm(nm.type(t))
            ext_a = sorted(self.obj[o] for o in objects_of(A, t))
            if bn not in btypes:
                raise Mismatch("type-missing", f"type {t.name!r} (expected name {bn!r}) does not exist in the second problem")
            ext_b = sorted(objects_of(B, btypes[bn]))
            if ext_a != ext_b:
                raise Mismatch("type-extension", f"objects of type {t.name!r}: {ext_a} vs {ext_b} in the second problem", expected=ext_a, observed=ext_b)
        # fluents
        bfl = _lower_index(B.fluents, lambda f: f.name, "fluent", norm)
        self.fl = {}  # A fluent name -> B fluent
        for f in A.fluents:
            bn = norm(nm.fluent(f))
            if bn not in bfl:
                raise Mismatch("fluent-missing", f"fluent {f.name!r} (expected name {bn!r}) does not exist in the second problem")
            g = bfl[bn]
            if g.arity != f.arity:
                raise Mismatch("fluent-arity", f"fluent {f.name!r}: arity {f.arity} vs {g.arity}")
            if _kind_of_type(f.type) != _kind_of_type(g.type):
                raise Mismatch("fluent-kind", f"fluent {f.name!r}: type {f.type} vs {g.type}")
            for p, q in zip(f.signature, g.signature):
                self._same_domain(p.type, q.type, f"parameter {p.name} of fluent {f.name}")
            self.fl[f.name] = g
        self.extra_fluents = sorted(set(bfl) - {norm(nm.fluent(f)) for f in A.fluents})
        # actions
        bact = _lower_index(B.actions, lambda a: a.name, "action", norm)
        self.act = {}  # A action name -> B action name
        self.missing_actions = []
        for a in A.actions:
            bn = norm(nm.action(a))
            if bn not in bact:
                self.missing_actions.append(a.name)
                continue
            b = bact[bn]
            self.act[a.name] = b.name
            if self.VA.kinds[a.name] != self.VB.kinds[b.name]:
                raise Mismatch("action-kind", f"action {a.name!r} is {self.VA.kinds[a.name]} in the first and {self.VB.kinds[b.name]} in the second problem")
            if len(a.parameters) != len(b.parameters):
                raise Mismatch("action-arity", f"action {a.name!r}: {len(a.parameters)} vs {len(b.parameters)} parameters")
            for p, q in zip(a.parameters, b.parameters):
                self._same_domain(p.type, q.type, f"parameter {p.name} of action {a.name}")
        extra = sorted(set(bact) - {norm(nm.action(a)) for a in A.actions})
        if extra:
            raise Mismatch("action-extra", f"the second problem has actions without counterpart: {extra}")
        self.ract = {v: k for k, v in self.act.items()}
        self.gfl = seqsem.ground_fluents(A)

    def _same_domain(self, ta, tb, what):
        da, db = domain_of(self.A, ta), domain_of(self.B, tb)
        if da is None or db is None:
            if (da is None) != (db is None):
                raise Mismatch("parameter-domain", f"{what}: finite vs infinite domain")
            return
        if ta.is_user_type():
            da = [self.obj[o] for o in da]
        if sorted(map(str, da)) != sorted(map(str, db)):
            raise Mismatch("parameter-domain", f"{what}: domain {sorted(map(str, da))} vs {sorted(map(str, db))}", expected=sorted(map(str, da)), observed=sorted(map(str, db)))

    # -- value / key translation ----------------------------------------------------------------------------------------
    def val(self, v):
        return self.obj.get(v, v) if isinstance(v, str) else v

    def args(self, params, args):
        return tuple(self.obj[v] if p.type.is_user_type() else v for p, v in zip(params, args))

    def key(self, f, args):
        return (self.fl[f.name].name, self.args(f.signature, args))

    def bkey(self, akey):
        """Transition key of A -> transition key of B."""
        if akey[0] == "inst":
            return ("inst", self.act.get(akey[1]))
        if akey[0] == "dur":
            return ("dur", self.act.get(akey[1]), akey[2])
        return akey

    def akey(self, bkey):
        if bkey[0] == "inst":
            return ("inst", self.ract.get(bkey[1]))
        if bkey[0] == "dur":
            return ("dur", self.ract.get(bkey[1]), bkey[2])
        return bkey

    def state_diff(self, sa, sb):
        diff = {}
        for f, args in self.gfl:
            va = sa.get((f.name, args), UNDEF)
            vb = sb.get(self.key(f, args), UNDEF)
            va2 = self.val(va)
            if va2 is UNDEF or vb is UNDEF:
                same = va2 is UNDEF and vb is UNDEF
            else:
                same = isinstance(va2, bool) == isinstance(vb, bool) and va2 == vb
            if not same:
                diff[f"{f.name}({','.join(map(str, args))})"] = (str(va), str(vb), _kind_of_type(f.type))
        return diff


def _diff_class(diff):
    """Narrow signature of a state difference: fluent kind + which side is undefined."""
    cls = set()
    for _, (va, vb, kind) in diff.items():
        a = "undef" if va == "UNDEF" else "value"
        b = "undef" if vb == "UNDEF" else "value"
        cls.add(f"{kind}:{a}->{b}")
    return ",".join(sorted(cls))


def _jkey(k):
    return [list(x) if isinstance(x, tuple) else x for x in k]


def _instances(problem, tr, cap):
    doms = []
    for p in tr.parameters:
        d = domain_of(problem, p.type)
        if d is None:
            raise Unsupported(f"{tr.name}: infinite parameter domain")
        doms.append(d)
    out = [tuple(c) for c in _product(*doms)]
    if len(out) > cap:
        step = len(out) / cap
        out = [out[int(i * step)] for i in range(cap)]
    return out


class Stats:
    def __init__(self):
        self.counters = {}
        self.judged = 0
        self.nontrivial = []  # (state, key, args) triples where the reference says "applicable and changes something"
        self.pairs = 0
        self.reached = []  # reached (sa, sb) pairs (for metric comparison by the caller)

    def count(self, k, n=1):
        self.counters[k] = self.counters.get(k, 0) + n


def _decimal_values(s):
    """Number of fluent values of a state that are rationals with a finite, non-dyadic decimal expansion (3/10, 0.35, ...)."""
    n = 0
    for v in s.values():
        if isinstance(v, Fraction) and v.denominator % 5 == 0:
            d = v.denominator
            for p in (2, 5):
                while d % p == 0:
                    d //= p
            n += d == 1
    return n


def bisimulate(A, B, nm=None, depth=3, max_states=30, max_inst=24, corr=None, case_sensitive=False, walks=0, walk_len=0):
    """Returns (Stats, corr). Raises Mismatch on the first behavioural difference, Unsupported if the oracle cannot judge.
    Breadth-first product up to `depth` / `max_states`, then `walks` lock-step walks of up to `walk_len` state-changing steps
    from the initial state pair (deterministic choice), judged exactly like the breadth-first part: they reach state pairs in
    which effects have accumulated over several steps (numeric values are compared exactly, as Fractions)."""
    import random

    c = corr or Corr(A, B, nm, case_sensitive)
    st = Stats()
    VA, VB = c.VA, c.VB
    # transitions: union of keys
    keys = []
    for k in VA.transitions:
        keys.append(k)
    for kb in VB.transitions:
        ka = c.akey(kb)
        if ka not in VA.transitions:
            keys.append(ka)
    pairs = []
    missing = {}  # (side, action name) -> [transitions]: actions that exist on one side only
    for ka in keys:
        ta = VA.transitions.get(ka)
        kb = c.bkey(ka)
        tb = VB.transitions.get(kb)
        if ta is None and tb is None:
            continue
        if ka[0] in ("inst", "dur") and (ka[1] is None or ka[1] not in c.act):
            # a whole action without counterpart (e.g. a writer omits actions whose condition is constantly false): it must
            # never be applicable as a whole, i.e. in every state some time class of it is inapplicable
            side = "first" if ta is not None else "second"
            missing.setdefault((side, (ta or tb).name), []).append(ta or tb)
            continue
        if ta is None or tb is None:
            st.count("one-sided-time-class:" + str(ka[0]))
        pairs.append((ka, ta, tb))
    # durations
    for an, (lo, hi, lop, rop, a) in VA.durations.items():
        bn = c.act.get(an)
        if bn is None:
            continue
        blo, bhi, blop, brop, b = VB.durations[bn]
        if (lop, rop) != (blop, brop):
            # an open bound only differs from a closed one if the interval is not a point; compared by value below as well
            raise Mismatch("duration-openness", f"action {an!r}: duration interval open flags {(lop, rop)} vs {(blop, brop)}", expected=[lop, rop], observed=[blop, brop])
    sa0, sb0 = seqsem.initial_state(A), seqsem.initial_state(B)
    d0 = c.state_diff(sa0, sb0)
    if d0:
        raise Mismatch("initial-state:" + _diff_class(d0), f"initial states differ (fluent: (first, second, kind)): {d0}", diff=d0)

    def judge_state(sa, sb, path):
        """Judges goal status, every ground instance of every transition pair, one-sided actions and durations in one state
        pair; returns the judged applicable instance pairs as [(successor of A, successor of B, step, changed?)]."""
        out = []
        st.pairs += 1
        st.reached.append((sa, sb))
        if _decimal_values(sa):
            st.count("state-pairs-with-non-dyadic-decimal-values")
        ga, gb = seqsem.goal_status(A, sa), seqsem.goal_status(B, sb)
        if ga is None or gb is None:
            st.count("dontcare:goal")
        else:
            st.judged += 1
            if ga != gb:
                raise Mismatch("goal-mismatch", f"goal status {ga} vs {gb} in state {seqsem.show_state(sa)}", path=path, expected=ga, observed=gb)
        for ka, ta, tb in pairs:
            if ta is not None:
                insts = _instances(A, ta, max_inst)
            else:
                inv = {v: k for k, v in c.obj.items()}
                insts = [tuple(inv.get(x, x) if isinstance(x, str) else x for x in i) for i in _instances(B, tb, max_inst)]
            params = (ta if ta is not None else tb).parameters
            # a missing time class / timed effect / timed goal of something that exists on both sides is the empty
            # transition (no condition, no effect)
            for args in insts:
                bargs = c.args(params, args)
                if ta is not None:
                    ra = seqsem.succ(A, sa, ta, args)
                else:
                    ra = seqsem.Succ(OKAY, state=sa, info={"changed": set(), "features": set()})
                if tb is not None:
                    rb = seqsem.succ(B, sb, tb, bargs)
                else:
                    rb = seqsem.Succ(OKAY, state=sb, info={"changed": set(), "features": set()})
                step = [_jkey(ka), list(args)]
                if ra.status == DONTCARE or rb.status == DONTCARE:
                    st.count("dontcare:" + str(ra.reason if ra.status == DONTCARE else rb.reason))
                    continue
                st.judged += 1
                if ra.status != rb.status:
                    mech = f"applicability-mismatch:{ka[0]}"
                    raise Mismatch(
                        mech,
                        f"{step} in {seqsem.show_state(sa)}: first problem {ra.status} ({ra.reason}), second {rb.status} ({rb.reason})",
                        path=path,
                        step=step,
                        expected=f"{ra.status}:{ra.reason}",
                        observed=f"{rb.status}:{rb.reason}",
                    )
                if ra.status == INAPP:
                    st.count("both-inapplicable")
                    continue
                dd = c.state_diff(ra.state, rb.state)
                if dd:
                    raise Mismatch("successor-mismatch:" + str(ka[0]) + ":" + _diff_class(dd), f"{step} in {seqsem.show_state(sa)}: successors differ (fluent: (first, second, kind)) {dd}", path=path, step=step, diff=dd)
                for ft in ra.info.get("features", ()):
                    st.count("feature:" + ft)
                if ra.info.get("changed"):
                    st.count("both-applicable-changed")
                    st.nontrivial.append((seqsem.freeze(sa), str(ka), tuple(map(str, args))))
                else:
                    st.count("both-applicable-noop")
                out.append((ra.state, rb.state, step, bool(ra.info.get("changed"))))
        for (side, an), trs in missing.items():
            P, s_ = (A, sa) if side == "first" else (B, sb)
            for args in _instances(P, trs[0], max_inst):
                rs = [seqsem.succ(P, s_, t, args) for t in trs]
                if any(r.status == DONTCARE for r in rs):
                    st.count("dontcare:missing-action")
                    continue
                st.judged += 1
                if all(r.status == OKAY for r in rs):
                    raise Mismatch(
                        f"action-only-in-{side}-applicable",
                        f"action {an!r} exists only in the {side} problem but is applicable there with {list(args)} in {seqsem.show_state(s_)}",
                        path=path,
                        step=[an, list(args)],
                    )
                st.count("one-sided-action-never-applicable")
        for an in VA.durations:
            if an in c.act:
                a = VA.durations[an][4]
                for args in _instances(A, a, max_inst):
                    _compare_duration(c, an, sa, sb, args, c.args(a.parameters, args), st, path)
        return out

    seen = {seqsem.freeze(sa0)}
    queue = deque([(sa0, sb0, 0, [])])
    n = 0
    first = None
    while queue and n < max_states:
        sa, sb, dep, path = queue.popleft()
        n += 1
        succs = judge_state(sa, sb, path)
        if first is None:
            first = succs
        if dep < depth:
            for nsa, nsb, step, _ in succs:
                k = seqsem.freeze(nsa)
                if k not in seen:
                    seen.add(k)
                    queue.append((nsa, nsb, dep + 1, path + [step]))
    # actions of A that have no counterpart in B must never have been applicable: checked above through the empty transition
    for w in range(walks):
        rnd = random.Random(w)
        succs, path, on_path = first or [], [], {seqsem.freeze(sa0)}
        for i in range(walk_len):
            # prefer steps that change the state and lead to a state not yet on this walk (accumulation, not oscillation)
            fresh = [x for x in succs if x[3] and seqsem.freeze(x[0]) not in on_path]
            if not fresh:
                break
            sa, sb, step, _ = fresh[rnd.randrange(len(fresh))]
            path = path + [step]
            on_path.add(seqsem.freeze(sa))
            st.count("walk-steps")
            if i + 1 > depth:
                st.count("walk-steps-beyond-depth")
            succs = judge_state(sa, sb, path)
    return st, c


def _compare_duration(c, an, sa, sb, args, bargs, st, path):
    lo, hi, lop, rop, a = c.VA.durations[an]
    blo, bhi, blop, brop, b = c.VB.durations[c.act[an]]
    IA = Interp(c.A, sa, {p.name: v for p, v in zip(a.parameters, args)})
    IB = Interp(c.B, sb, {p.name: v for p, v in zip(b.parameters, bargs)})
    va = (ev(lo, IA, "strict"), ev(hi, IA, "strict"))
    vb = (ev(blo, IB, "strict"), ev(bhi, IB, "strict"))
    if any(x is UNDEF for x in va + vb):
        st.count("dontcare:duration-undefined")
        return
    st.judged += 1
    st.count("durations-compared")
    if va != vb:
        raise Mismatch("duration-mismatch", f"action {an!r}{list(args)}: duration bounds {va} vs {vb} in state {seqsem.show_state(sa)}", path=path, expected=list(map(str, va)), observed=list(map(str, vb)))


# ---- metrics (C21: "the same metric") ---------------------------------------------------------------------------------------
def metric_signature(problem):
    """Canonical, behaviour-level description of the (single) quality metric: (kind, payload).
    plan length is the action-cost metric with cost 1 for every action."""
    ms = list(problem.quality_metrics)
    if not ms:
        return None
    if len(ms) > 1:
        raise Unsupported("more than one metric")
    m = ms[0]
    if m.is_minimize_sequential_plan_length():
        return ("min-cost", {a.name: "one" for a in problem.actions})
    if m.is_minimize_action_costs():
        return ("min-cost", {a.name: m.get_action_cost(a) for a in problem.actions})
    if m.is_minimize_expression_on_final_state():
        return ("min-final", m.expression)
    if m.is_maximize_expression_on_final_state():
        return ("max-final", m.expression)
    if m.is_minimize_makespan():
        return ("min-makespan", None)
    return (type(m).__name__, None)


def compare_metrics(c, reached, max_inst=24):
    """Raises Mismatch if the two problems' metrics differ in kind or in value on the reached state pairs.
    Returns the number of evaluations compared."""
    ma, mb = metric_signature(c.A), metric_signature(c.B)
    if ma is None and mb is None:
        return 0
    if (ma is None) != (mb is None) or ma[0] != mb[0]:
        raise Mismatch("metric-kind", f"metric {ma and ma[0]} vs {mb and mb[0]}", expected=ma and ma[0], observed=mb and mb[0])
    n = 0
    if ma[0] in ("min-final", "max-final"):
        for sa, sb in reached:
            va, vb = ev(ma[1], Interp(c.A, sa), "strict"), ev(mb[1], Interp(c.B, sb), "strict")
            if va is UNDEF or vb is UNDEF:
                continue
            n += 1
            if va != vb:
                raise Mismatch("metric-value", f"metric expression evaluates to {va} vs {vb} in state {seqsem.show_state(sa)}", expected=str(va), observed=str(vb))
    elif ma[0] == "min-cost":
        for a in c.A.actions:
            bn = c.act.get(a.name)
            if bn is None:
                continue
            b = c.B.action(bn)
            ca, cb = ma[1].get(a.name), mb[1].get(bn)
            for args in _instances(c.A, a, max_inst):
                bargs = c.args(a.parameters, args)
                for sa, sb in reached[:8]:
                    va = _cost(ca, c.A, sa, a, args)
                    vb = _cost(cb, c.B, sb, b, bargs)
                    if va is UNDEF or vb is UNDEF:
                        continue
                    n += 1
                    if va != vb:
                        raise Mismatch("metric-cost", f"cost of {a.name}{list(args)} is {va} vs {vb} in state {seqsem.show_state(sa)}", expected=str(va), observed=str(vb))
    return n


def _cost(ce, problem, s, action, args):
    if ce is None:
        return 0
    if isinstance(ce, str):
        return 1
    return ev(ce, Interp(problem, s, {p.name: v for p, v in zip(action.parameters, args)}), "strict")
